//! C16 — workbook metadata is reported faithfully and in workbook order (four formats).
use crate::engine::choice::{explore_deviations, explore_full, run_one, Chooser, Stats};
use crate::engine::report::{Replay, Report};
use crate::engine::{guarded, hash_of, normalise_site};
use crate::gen::zipw::Method;
use crate::gen::{biff8, cfb, ods, xlsb, xlsx};
use calamine::{Data, ExcelDateTime, ExcelDateTimeType, Ods, Reader, Sheet, SheetType, SheetVisible, Xls, Xlsb, Xlsx};
use rayon::prelude::*;
use serde_json::json;
use std::io::Cursor;
use std::sync::Mutex;

const FORMATS: [&str; 4] = ["xlsx", "xlsb", "xls", "ods"];
const NAMES: [&str; 11] = ["Sheet1", "\u{91}q", "a&b", "<x>", "\u{dc}n\u{ef}", "\u{1F600}", "it's", "abcdefghijklmnopqrstuvwxyz01234", "Data \"2\"", " Sheet1", "Sheet1\u{a0}"];

#[derive(Clone, Debug)]
struct MSheet { name: String, vis: SheetVisible, typ: SheetType }
struct Meta { sheets: Vec<MSheet>, names: Vec<(String, String)>, is1904: bool }

fn kinds_of(fmt: &str) -> Vec<SheetType> {
    match fmt {
        "xlsx" | "xlsb" => vec![SheetType::WorkSheet, SheetType::ChartSheet, SheetType::DialogSheet, SheetType::MacroSheet],
        "xls" => vec![SheetType::WorkSheet, SheetType::ChartSheet, SheetType::MacroSheet, SheetType::Vba],
        _ => vec![SheetType::WorkSheet],
    }
}
fn vis_of(fmt: &str) -> Vec<SheetVisible> {
    if fmt == "ods" { vec![SheetVisible::Visible, SheetVisible::Hidden] } else { vec![SheetVisible::Visible, SheetVisible::Hidden, SheetVisible::VeryHidden] }
}

fn choose_meta(ch: &mut Chooser, fmt: &str) -> Meta {
    let n = [1usize, 0, 2, 3][ch.choose("sheet-count", 4)];
    let mut sheets: Vec<MSheet> = vec![];
    for _ in 0..n {
        let pool: Vec<&str> = NAMES.iter().copied().filter(|x| !sheets.iter().any(|s| s.name == *x)).collect();
        let name = ch.pick("sheet-name", &pool).to_string();
        let vis = ch.pick("visibility", &vis_of(fmt));
        let typ = ch.pick("sheet-kind", &kinds_of(fmt));
        sheets.push(MSheet { name, vis, typ });
    }
    let first_ws = sheets.iter().find(|s| s.typ == SheetType::WorkSheet).map(|s| s.name.clone());
    let nn = if first_ws.is_some() { ch.choose("defined-name-count", 3) } else { 0 };
    let mut names = vec![];
    for i in 0..nn {
        let nm = ["rate_1", "Total", "\u{dc}ber"][i].to_string();
        // reference-valued names: the one form all four readers decode
        let target = &sheets.iter().filter(|s| s.typ == SheetType::WorkSheet).nth(i % sheets.iter().filter(|s| s.typ == SheetType::WorkSheet).count()).unwrap().name;
        names.push((nm, target.clone()));
    }
    Meta { sheets, names, is1904: ch.flag("date1904") }
}

const SERIAL: f64 = 44197.25;

fn build(ch: &mut Chooser, fmt: &str) -> (Vec<u8>, Meta, Vec<(String, String)>) {
    let m = choose_meta(ch, fmt);
    let ws_index = |name: &str| m.sheets.iter().position(|s| s.name == name).unwrap();
    match fmt {
        "xlsx" => {
            let mut b = xlsx::XBook { date1904: Some(m.is1904), styles: Some(xlsx::XStyles { num_fmts: vec![], cell_xfs: vec![0, 14], cell_style_xfs: vec![0], omit_general_numfmt: false }), ..Default::default() };
            for s in &m.sheets {
                let mut c = xlsx::XCell::new(0, 0, xlsx::XVal::Num(format!("{SERIAL}")));
                c.style = Some(1);
                let mut sh = xlsx::XSheet::new(&s.name, vec![c]);
                sh.kind = match s.typ { SheetType::ChartSheet => xlsx::SheetKind::Chart, SheetType::DialogSheet => xlsx::SheetKind::Dialog, SheetType::MacroSheet => xlsx::SheetKind::Macro, _ => xlsx::SheetKind::Work };
                sh.state = match s.vis { SheetVisible::Visible => if ch.flag("xlsx.explicit-visible-state") { Some("visible") } else { None }, SheetVisible::Hidden => Some("hidden"), SheetVisible::VeryHidden => Some("veryHidden") };
                b.sheets.push(sh);
            }
            let mut expn = vec![];
            let far = !m.names.is_empty() && ch.flag("defined-names-point-at-the-last-cell-of-the-sheet");
            for (n, t) in &m.names {
                let q = if t.chars().all(|c| c.is_ascii_alphanumeric()) { t.clone() } else { format!("'{}'", t.replace('\'', "''")) };
                let v = if far { format!("{q}!$XFD$1048576") } else { format!("{q}!$B$2") };
                b.defined_names.push((n.clone(), v.clone()));
                expn.push((n.clone(), v));
            }
            // the same name defined once per sheet (sheet-local names such as a print area): every definition is listed
            if m.names.len() == 2 && m.sheets.len() >= 2 && ch.flag("xlsx.both-defined-names-carry-the-same-name(local to sheet 0 and 1)") {
                let n0 = b.defined_names[0].0.clone();
                b.defined_names[1].0 = n0.clone(); expn[1].0 = n0;
                b.defined_name_local_sheet = vec![Some(0), Some(1)];
            }
            let e = xlsx::XEnc { sheet_subfolder: ch.flag("xlsx.sheet-parts-in-a-sub-folder"), prefix: ch.flag("xlsx.prefix"), indent: ch.flag("xlsx.indented"), extras: ch.flag("xlsx.optional-elements-of-the-workbook-and-sheet-parts(calcPr, extLst with x15:workbookPr, ...)"), split_text_nodes: ch.flag("xlsx.defined-name-text-split-by-comment"), bool_words: ch.flag("xlsx.date1904-spelled-true-false"), rels_target_first: ch.flag("xlsx.rels-target-before-type"), ..Default::default() };
            (xlsx::write(&b, &e), m, expn)
        }
        "xlsb" => {
            let mut b = xlsb::BBook { date1904: m.is1904, xfs: vec![0, 14], ..Default::default() };
            for s in &m.sheets {
                let mut sh = xlsb::BSheet::new(&s.name, vec![xlsb::BItem::Cell { row: 0, col: 0, style: 1, val: xlsb::BVal::Real(SERIAL) }]);
                sh.state = match s.vis { SheetVisible::Visible => 0, SheetVisible::Hidden => 1, SheetVisible::VeryHidden => 2 };
                sh.dir = match s.typ { SheetType::ChartSheet => "chartsheets", SheetType::DialogSheet => "dialogsheets", SheetType::MacroSheet => "macrosheets", _ => "worksheets" };
                b.sheets.push(sh);
            }
            let mut expn = vec![];
            if !m.names.is_empty() {
                let mut xti = vec![];
                if ch.flag("xlsb.formula-less-name-first") { b.names.push((MACRO_NAME.to_string(), vec![])); }
                let far = ch.flag("defined-names-point-at-the-last-cell-of-the-sheet");
                for (i, (n, t)) in m.names.iter().enumerate() {
                    let ix = ws_index(t) as i32;
                    xti.push((ix, ix));
                    // PtgRef3d: ixti(2) row(4) col(2, absolute)
                    let (row, col, cell) = if far { (1_048_575u32, 16_383u16, "$XFD$1048576") } else { (1, 1, "$B$2") };
                    let mut rgce = vec![0x3A]; rgce.extend((i as u16).to_le_bytes()); rgce.extend(row.to_le_bytes()); rgce.extend(col.to_le_bytes());
                    b.names.push((n.clone(), rgce));
                    expn.push((n.clone(), format!("{t}!{cell}")));
                }
                b.extern_sheets = Some(xti);
                // a name whose formula uses an earlier name: PtgName(1) PtgInt(2) PtgMul
                if m.names.len() == 2 && ch.flag("xlsb.second-name-is-a-formula-over-the-first") {
                    let at = b.names.len() - 1;
                    let mut rgce = vec![0x23]; rgce.extend(((at) as u32).to_le_bytes()); rgce.extend([0x1E, 2, 0, 0x05]);
                    b.names[at].1 = rgce;
                    let first = m.names[0].0.clone();
                    expn[1].1 = format!("{first}*2");
                }
            }
            b.rel_ids_non_ascii = ch.flag("xlsb.relationship-ids-with-non-ascii-letters");
            b.external_link_first = !m.names.is_empty() && ch.flag("xlsb.link-to-an-external-workbook-recorded-before-the-self-link");
            (xlsb::write(&b, Method::Deflated), m, expn)
        }
        "xls" => {
            let mut b = biff8::BBook { date1904: m.is1904, xfs: vec![0, 14], ..Default::default() };
            // the date cell as NUMBER, or as an RK integer with the /100 flag (how a date with a time of day is often stored)
            let rk100 = ch.flag("xls.date-cell-as-rk-integer-div-100");
            let hs_junk = ch.flag("xls.undefined-bits-of-the-hsState-byte-set");
            for s in &m.sheets {
                let mut sh = biff8::BSheet::new(&s.name, vec![if rk100 { biff8::BCell::Rk { r: 0, c: 0, xf: 1, rk: (((SERIAL * 100.0).round() as i32 as u32) << 2) | 3 } } else { biff8::BCell::Number { r: 0, c: 0, xf: 1, v: SERIAL } }]);
                // hsState is the low two bits of its byte; the other six are undefined and ignored (MS-XLS 2.4.28)
                sh.state = match s.vis { SheetVisible::Visible => 0, SheetVisible::Hidden => 1, SheetVisible::VeryHidden => 2 } | if hs_junk { 0xC0 } else { 0 };
                sh.dt = match s.typ { SheetType::MacroSheet => 1, SheetType::ChartSheet => 2, SheetType::Vba => 6, _ => 0 };
                sh.name_wide = ch.flag("xls.sheet-name-16bit");
                b.sheets.push(sh);
            }
            if b.sheets.len() >= 2 && ch.flag("xls.substreams-stored-in-reverse-of-boundsheet-order") { b.substream_order = (0..b.sheets.len()).rev().collect(); }
            let mut expn = vec![];
            if !m.names.is_empty() {
                let mut xti = vec![];
                if ch.flag("xls.formula-less-name-first") { b.names.push((MACRO_NAME.to_string(), vec![])); }
                let far = ch.flag("defined-names-point-at-the-last-cell-of-the-sheet");
                for (i, (n, t)) in m.names.iter().enumerate() {
                    let ix = ws_index(t) as i16;
                    xti.push((ix, ix));
                    let (row, col, cell) = if far { (65_535u16, 255u16, "$IV$65536") } else { (1, 1, "$B$2") };
                    let mut rgce = vec![0x3A]; rgce.extend((i as u16).to_le_bytes()); rgce.extend(row.to_le_bytes()); rgce.extend(col.to_le_bytes());
                    b.names.push((n.clone(), rgce));
                    expn.push((n.clone(), format!("{t}!{cell}")));
                }
                b.extern_sheets = Some(xti);
            }
            let mut stream = biff8::workbook_stream(&b);
            if stream.len() < 4096 { stream.resize(4096, 0); }
            (cfb::simple(&[("Workbook", stream)], &cfb::Layout::default()), m, expn)
        }
        _ => {
            let mut b = ods::OBook::default();
            b.named_name_last = ch.flag("ods.named-range-name-attribute-last");
            b.indent = ch.flag("ods.document-indented");
            b.style_name_collision = ch.flag("ods.other-style-families-reuse-table-style-names");
            b.dde_links = ch.flag("ods.dde-links-with-unnamed-cache-table");
            for s in &m.sheets {
                b.sheets.push(ods::OSheet { name: s.name.clone(), rows: vec![ods::ORow { cells: vec![(ods::OCell::new(ods::OVal::Float("1".into(), "float")), 1)], repeat: 1 }], display: match s.vis { SheetVisible::Visible => if ch.flag("ods.explicit-display-true") { Some(true) } else { None }, _ => Some(false) } });
            }
            let mut expn = vec![];
            // the block may hold named ranges and named expressions in any interleaving
            let kinds_swapped = if !m.names.is_empty() && ch.flag("ods.first-defined-name-is-an-expression-the-second-a-range") { 1 } else { 0 };
            for (i, (n, t)) in m.names.iter().enumerate() {
                let q = if t.chars().all(|c| c.is_ascii_alphanumeric()) { t.clone() } else { format!("'{}'", t.replace('\'', "''")) };
                if (i + kinds_swapped) % 2 == 0 { let v = format!("${q}.$B$2"); b.named.push((n.clone(), Some(v.clone()), None)); expn.push((n.clone(), v)); }
                else { let v = format!("of:=[${q}.$B$2]*2&\"<x>\""); b.named.push((n.clone(), None, Some(v.clone()))); expn.push((n.clone(), v)); }
            }
            (ods::write(&b, Method::Deflated), m, expn)
        }
    }
}

/// same names in the same order; for the token-encoded formats the decoded reference may or may not quote the sheet name
fn names_agree(fmt: &str, got: &[(String, String)], exp: &[(String, String)]) -> bool {
    // a name record without a formula has no reference to decode: listing it or not is the reader's choice
    let got: Vec<&(String, String)> = got.iter().filter(|g| g.0 != MACRO_NAME).collect();
    if got.len() != exp.len() { return false; }
    got.iter().zip(exp.iter()).all(|(g, e)| {
        if g.0 != e.0 { return false; }
        if g.1 == e.1 { return true; }
        if fmt == "xls" || fmt == "xlsb" {
            if let Some((sheet, cell)) = e.1.rsplit_once('!') { return g.1 == format!("'{}'!{cell}", sheet.replace('\'', "''")); }
        }
        false
    })
}

/// name of the formula-less name record (a macro / add-in placeholder) some variations put before the real names
const MACRO_NAME: &str = "Macro1";

type Obs = (Vec<Sheet>, Vec<String>, Vec<(String, String)>, Vec<(String, Data)>);

fn read(fmt: &str, bytes: &[u8], m: &Meta) -> Result<Obs, String> {
    fn go<R: Reader<Cursor<Vec<u8>>>>(b: &[u8], m: &Meta) -> Result<Obs, String> where R::Error: std::fmt::Debug {
        let mut wb = R::new(Cursor::new(b.to_vec())).map_err(|e| format!("open: {e:?}"))?;
        let meta = wb.sheets_metadata().to_vec();
        let names = wb.sheet_names();
        let defined = wb.defined_names().to_vec();
        let mut cells = vec![];
        for s in m.sheets.iter().filter(|s| s.typ == SheetType::WorkSheet) {
            let r = wb.worksheet_range(&s.name).map_err(|e| format!("worksheet_range({}): {e:?}", s.name))?;
            cells.push((s.name.clone(), r.get_value((0, 0)).cloned().unwrap_or(Data::Empty)));
        }
        Ok((meta, names, defined, cells))
    }
    match fmt { "xlsx" => go::<Xlsx<_>>(bytes, m), "xlsb" => go::<Xlsb<_>>(bytes, m), "xls" => go::<Xls<_>>(bytes, m), _ => go::<Ods<_>>(bytes, m) }
}

/// the same observation through format auto-detection on the bytes (no file name to go by)
fn read_auto(bytes: &[u8], m: &Meta) -> Result<Obs, String> {
    let mut wb = calamine::open_workbook_auto_from_rs(Cursor::new(bytes.to_vec())).map_err(|e| format!("open: {e:?}"))?;
    let meta = wb.sheets_metadata().to_vec();
    let names = wb.sheet_names();
    let defined = wb.defined_names().to_vec();
    let mut cells = vec![];
    for s in m.sheets.iter().filter(|s| s.typ == SheetType::WorkSheet) {
        let r = wb.worksheet_range(&s.name).map_err(|e| format!("worksheet_range({}): {e:?}", s.name))?;
        cells.push((s.name.clone(), r.get_value((0, 0)).cloned().unwrap_or(Data::Empty)));
    }
    Ok((meta, names, defined, cells))
}

fn run_case(rep: &Report, ch: &mut Chooser, fmt: &str, local: &mut Vec<(u64, bool, u64)>) {
    let (bytes, m, expn) = build(ch, fmt);
    rep.eval(1);
    let desc = json!({"format": fmt, "sheets": m.sheets.iter().map(|s| format!("{s:?}")).collect::<Vec<_>>(), "defined_names": expn, "is1904": m.is1904});
    let replay = || Replay { json: json!({"format": fmt, "choices": ch.choices(), "case": desc}), files: vec![(fmt.to_string(), bytes.clone())] };
    let res = guarded(|| read(fmt, &bytes, &m));
    let outcome = match &res {
        Err(p) => { let site = normalise_site(p.rsplit(" @ ").next().unwrap_or("")); rep.fail(&format!("{fmt}/panic/{site}"), &format!("reader panicked: {p}"), replay); hash_of(p) }
        Ok(Err(e)) => {
            let cl: String = e.chars().take_while(|c| *c != '(' && *c != '{').collect();
            let kinds: Vec<String> = m.sheets.iter().filter(|s| s.typ != SheetType::WorkSheet).map(|s| format!("{:?}", s.typ)).collect();
            rep.fail(&format!("{fmt}/error/{}/{}", cl.trim(), kinds.first().cloned().unwrap_or_default()), &format!("well-formed workbook rejected: {e}"), replay); hash_of(e)
        }
        Ok(Ok((meta, names, defined, cells))) => {
            let exp_meta: Vec<Sheet> = m.sheets.iter().map(|s| Sheet { name: s.name.clone(), typ: s.typ, visible: s.vis }).collect();
            if names != &m.sheets.iter().map(|s| s.name.clone()).collect::<Vec<_>>() { rep.fail(&format!("{fmt}/sheet-names"), &format!("sheet_names {names:?}, expected {:?}", m.sheets.iter().map(|s| &s.name).collect::<Vec<_>>()), replay); }
            else if meta != &exp_meta {
                let which = meta.iter().zip(exp_meta.iter()).find(|(a, b)| a != b).map(|(a, b)| if a.name != b.name { "name".to_string() } else if a.visible != b.visible { format!("visibility-{:?}", b.visible) } else { format!("kind-{:?}", b.typ) }).unwrap_or("count".into());
                rep.fail(&format!("{fmt}/sheets-metadata/{which}"), &format!("sheets_metadata {meta:?}, expected {exp_meta:?}"), replay);
            }
            else if !names_agree(fmt, defined, &expn) { rep.fail(&format!("{fmt}/defined-names"), &format!("defined_names {defined:?}, expected {expn:?}"), replay); }
            else if fmt != "ods" {
                let exp = Data::DateTime(ExcelDateTime::new(SERIAL, ExcelDateTimeType::DateTime, m.is1904));
                for (n, d) in cells { if *d != exp { rep.fail(&format!("{fmt}/date-system"), &format!("sheet {n}: date cell {d:?}, expected {exp:?}"), replay); break; } }
            }
            hash_of(&format!("{meta:?}{defined:?}{cells:?}"))
        }
    };
    // a workbook the format's own reader accepts reads the same through auto-detection
    if let Ok(Ok(own)) = &res {
        let auto = guarded(|| read_auto(&bytes, &m));
        match &auto { Ok(Ok(a)) if a == own => {}, other => rep.fail(&format!("{fmt}/auto-detected-differs"), &format!("auto-detected reader: {:?}; the {fmt} reader: sheets {:?}, names {:?}", other.as_ref().map(|r| r.as_ref().map(|o| (&o.1, &o.2))), own.1, own.2), replay) }
    }
    local.push((hash_of(&bytes), !ch.is_default(), outcome));
    if rep.want_sample() && ch.choices().iter().filter(|x| **x != 0).count() >= 3 { rep.sample(desc); }
}

/// Metadata of the repository's own fixtures: sheet_names() and sheets_metadata() list the same sheets in the same order, a
/// second reader of the same bytes reports the same metadata and defined names, and every name resolves by index.
fn corpus_metadata(rep: &Report) {
    let files = crate::props::corpus::fixtures(&crate::props::corpus::ALL);
    let opened = std::sync::atomic::AtomicU64::new(0);
    files.par_iter().for_each(|(fname, bytes)| {
        crate::engine::crumb::set_case(&format!("C16 fixture {fname}"));
        let r = guarded(|| -> Vec<(String, String)> {
            let mut bad = vec![];
            let Ok(wb) = calamine::open_workbook_auto_from_rs(Cursor::new(bytes.clone())) else { return bad };
            opened.fetch_add(1, std::sync::atomic::Ordering::Relaxed);
            let names = wb.sheet_names();
            let meta: Vec<String> = wb.sheets_metadata().iter().map(|s| s.name.clone()).collect();
            if names != meta { bad.push(("names-vs-metadata".into(), format!("sheet_names() {names:?}, sheets_metadata() {meta:?}"))); }
            let mut seen = std::collections::HashSet::new();
            for n in &names { if !seen.insert(n.clone()) { bad.push(("duplicate-name".into(), format!("sheet name {n:?} listed twice"))); } }
            if let Ok(again) = calamine::open_workbook_auto_from_rs(Cursor::new(bytes.clone())) {
                if format!("{:?}", again.sheets_metadata()) != format!("{:?}", wb.sheets_metadata()) { bad.push(("metadata-not-reproducible".into(), "two readers of the same bytes report different sheet metadata".into())); }
                if again.defined_names() != wb.defined_names() { bad.push(("defined-names-not-reproducible".into(), "two readers of the same bytes report different defined names".into())); }
            }
            bad
        });
        rep.eval(1);
        let replay = || Replay { json: json!({"fixture": fname}), files: vec![] };
        match r {
            Err(p) => { let site = normalise_site(p.rsplit(" @ ").next().unwrap_or("")); rep.fail(&format!("corpus/panic/{site}"), &format!("{fname}: panicked: {p}"), replay); }
            Ok(bad) => { for (k, d) in &bad { rep.fail(&format!("corpus/{k}"), &format!("{fname}: {d}"), replay); } rep.case(hash_of(&("corpus", fname)), true, hash_of(&format!("{bad:?}"))); }
        }
        crate::engine::crumb::clear();
    });
    rep.extra("fixture_files", json!(files.len()));
    rep.extra("fixture_files_opened", json!(opened.load(std::sync::atomic::Ordering::Relaxed)));
}

pub fn check(rep: &Report) {
    corpus_metadata(rep);
    let t = crate::thorough(&rep.tier);
    rep.rule("workbooks = 0..3 sheets x 11 names (XML specials, quotes, non-ASCII, a C1 control character, astral, 31 characters, names that differ from another one by a leading blank / a trailing no-break space only) x visibility x kind (xlsx/xlsb: work/chart/dialog/macro; xls dt 0/1/2/6; ods display) x 0..2 reference-valued defined names x 1900/1904 (+ a date cell on every worksheet) x prefix / name packing / xls substreams stored in reverse of BoundSheet8 order / a formula-less name record before the names (xls, xlsb); per format all choice vectors with <= d deviations from (one visible worksheet 'Sheet1') and the full product over one-sheet workbooks; non-trivial = non-default; distinct by file bytes");
    rep.assume("defined names are reference-valued (the one form all four readers decode); picture/VBA parts are not present");
    let stats = Mutex::new(Stats::default());
    let dev = if t { 5 } else { 3 };
    FORMATS.par_iter().for_each(|fmt| {
        crate::engine::crumb::set_job(&format!("C16 format={fmt}"));
        let mut st = Stats::default();
        let mut local = vec![];
        explore_deviations(|ch| run_case(rep, ch, fmt, &mut local), dev, &mut st);
        // full product over one-sheet workbooks: pin sheet-count to its default by running the tree below choice 0
        explore_full(|ch| { let mut inner = Chooser::new(&[vec![0u32], ch.pending_prefix()].concat()); run_case(rep, &mut inner, fmt, &mut local); for (i, (_, n)) in inner.trace.iter().enumerate().skip(1) { ch.choose(inner.labels[i], *n as usize); } }, &mut st, u64::MAX);
        rep.cases_bulk(&local);
        stats.lock().unwrap().merge(&st);
        crate::engine::crumb::clear();
    });
    let st = stats.lock().unwrap();
    rep.add_states(st.nodes, st.edges);
    rep.trace(st.executions);
    rep.extra("choice_labels_covered", st.label_summary());
    rep.extra("deviation_bound_completed", json!(dev));
    rep.exhaustive(true);
}

pub fn replay(path: &str) -> i32 {
    let Ok(s) = std::fs::read_to_string(path) else { return 2 };
    let v: serde_json::Value = serde_json::from_str(&s).unwrap();
    if let Some(c) = crate::props::corpus::replay_fixture(&v) { return c; }
    let choices: Vec<u32> = v["choices"].as_array().unwrap().iter().map(|x| x.as_u64().unwrap() as u32).collect();
    let fmt = v["format"].as_str().unwrap().to_string();
    let mut outs = vec![];
    for _ in 0..2 {
        let mut o = String::new();
        run_one(|ch| { let (bytes, m, expn) = build(ch, &fmt); o = format!("{:?}\nexpected names {expn:?} sheets {:?}", guarded(|| read(&fmt, &bytes, &m)), m.sheets); }, &choices);
        outs.push(o);
    }
    if outs[0] != outs[1] { eprintln!("MACHINERY: replay not deterministic"); return 2; }
    println!("case: {}\nrecorded: {}\nobserved now: {}", v["case"], v["what"], outs[0]);
    0
}
