//! C10 — a number is typed DateTime exactly when its cell style is a date/time format.
//! (a) explicit enumeration of all token sequences of the number-format grammar through the real
//!     classifier (hook) vs a token-level reference; all built-in ids;
//! (b) E1: style tables x number encodings x date systems in xlsx, xls, xlsb end to end.
use crate::engine::choice::{explore_full, run_one, Chooser, Stats};
use crate::engine::report::{Replay, Report};
use crate::engine::{guarded, hash_of, normalise_site};
use crate::gen::zipw::Method;
use crate::gen::{biff8, cfb, xlsb, xlsx};
use calamine::{Data, ExcelDateTime, ExcelDateTimeType, Reader, Xls, Xlsb, Xlsx};
use rayon::prelude::*;
use serde_json::json;
use std::io::Cursor;
use std::sync::Mutex;

#[derive(Clone, Copy, PartialEq, Debug)]
enum Tk { Plain, General, Date, Elapsed, Sep }

fn tokens() -> Vec<(&'static str, Tk)> {
    use Tk::*;
    vec![
        ("0", Plain), ("#", Plain), ("?", Plain), (".", Plain), (",", Plain), ("%", Plain), ("E+00", Plain), ("General", General), ("@", General),
        ("d", Date), ("dd", Date), ("ddd", Date), ("m", Date), ("mm", Date), ("mmm", Date), ("yy", Date), ("yyyy", Date), ("h", Date), ("hh", Date), ("s", Date), ("ss", Date),
        ("AM/PM", Date), ("A/P", Date), ("H", Date), ("YYYY", Date),
        ("[h]", Elapsed), ("[mm]", Elapsed), ("[ss]", Elapsed), ("[H]", Elapsed),
        ("\"d\"", Plain), ("\"x\"", Plain), ("\"m s\"", Plain), ("\"d_\"", Plain), ("\"y\\\"", Plain),
        ("\\d", Plain), ("\\ ", Plain), ("\\-", Plain), ("_d", Plain), ("_)", Plain),
        // a semicolon that is text (quoted or escaped), not a section separator
        ("\";\"", Plain), ("\\;", Plain),
        // an escaped escape character: the pair is one literal, what follows is a token again
        ("\\\\", Plain), ("__", Plain), ("\\_", Plain), ("_\\", Plain),
        ("[Red]", Plain), ("[Color3]", Plain), ("[>100]", Plain), ("[<=0]", Plain), ("[$-409]", Plain), ("[$\u{20ac}-407]", Plain), ("[$USD]", Plain), ("[Magenta]", Plain), ("[$UAH]", Plain), ("[$-en-US]", Plain), ("[$z\u{142}-415]", Plain),
        ("/", Plain), (":", Plain), ("-", Plain), (" ", Plain), (";", Sep),
    ]
}

/// 0 = Other, 1 = DateTime, 2 = TimeDelta; None = not a format a spreadsheet accepts (skipped)
fn reference(seq: &[(&'static str, Tk)]) -> Option<u8> {
    let mut class = 0u8;
    let mut section = 0;
    let mut has_general = [false; 8];
    let mut has_date = [false; 8];
    let mut has_other = [false; 8];
    for (t, k) in seq {
        match k {
            Tk::Sep => { section += 1; if section >= 8 { return None; } }
            Tk::General => has_general[section] = true,
            Tk::Date => { has_date[section] = true; if section == 0 && class == 0 { class = 1; } }
            Tk::Elapsed => {
                // an elapsed token is only meaningful as the first date/time token of its section
                if has_date[section] { return None; }
                has_date[section] = true;
                if section == 0 && class == 0 { class = 2; }
            }
            Tk::Plain => { if !(t.starts_with('"') || t.starts_with('\\') || t.starts_with('_') || t.starts_with('[') || *t == " ") { has_other[section] = true; } }
        }
    }
    // "General" / "@" never share a section with date/time tokens, digit placeholders or separators:
    // real formats only decorate them with colours, conditions, locale tags and literals
    for i in 0..=section { if has_general[i] && (has_date[i] || has_other[i]) { return None; } }
    Some(class)
}

fn classifier_sweep(rep: &Report, maxlen: usize) {
    let tk = tokens();
    let n = tk.len();
    let total: u64 = (0..=maxlen as u32).map(|l| (n as u64).pow(l)).sum();
    let firsts: Vec<usize> = (0..n).collect();
    let counted = std::sync::atomic::AtomicU64::new(0);
    let skipped = std::sync::atomic::AtomicU64::new(0);
    let outcomes: Mutex<[u64; 3]> = Mutex::new([0; 3]);
    // length 0
    let run = |seq: &[(&'static str, Tk)], local: &mut [u64; 3]| {
        let Some(exp) = reference(seq) else { skipped.fetch_add(1, std::sync::atomic::Ordering::Relaxed); return; };
        let s: String = seq.iter().map(|t| t.0).collect();
        let got = calamine::verif::formats::detect_custom_number_format(&s);
        counted.fetch_add(1, std::sync::atomic::Ordering::Relaxed);
        local[got.min(2) as usize] += 1;
        if got != exp {
            let names = ["Other", "DateTime", "TimeDelta"];
            // classify by the tokens that matter: the first token that is not plain punctuation
            let culprit = seq.iter().find(|t| t.0.starts_with('"') || t.0.starts_with('\\') || t.0.starts_with('_') || t.0.starts_with('[')).map(|t| t.0).unwrap_or("plain");
            rep.fail(&format!("classifier/{}-as-{}/{}", names[exp as usize], names[got.min(2) as usize], culprit), &format!("format {s:?} classified {}, expected {}", names[got.min(2) as usize], names[exp as usize]), || Replay { json: json!({"format_code": s}), files: vec![] });
        }
    };
    let mut l0 = [0u64; 3];
    run(&[], &mut l0);
    { let mut o = outcomes.lock().unwrap(); for a in &firsts { let mut local = [0u64; 3]; run(&[tk[*a]], &mut local); for i in 0..3 { o[i] += local[i]; } } }
    let pairs: Vec<(usize, usize)> = if maxlen >= 2 { firsts.iter().flat_map(|a| firsts.iter().map(move |b| (*a, *b))).collect() } else { vec![] };
    pairs.par_iter().for_each(|(a, b)| {
        crate::engine::crumb::set_case(&format!("C10 classifier sweep, first tokens {:?} {:?}", tk[*a].0, tk[*b].0));
        let mut local = [0u64; 3];
        let mut seq = vec![tk[*a], tk[*b]];
        fn rec(seq: &mut Vec<(&'static str, Tk)>, tk: &[(&'static str, Tk)], maxlen: usize, run: &dyn Fn(&[(&'static str, Tk)], &mut [u64; 3]), local: &mut [u64; 3]) {
            run(seq, local);
            if seq.len() == maxlen { return; }
            for t in tk { seq.push(*t); rec(seq, tk, maxlen, run, local); seq.pop(); }
        }
        rec(&mut seq, &tk, maxlen, &run, &mut local);
        let mut o = outcomes.lock().unwrap();
        for i in 0..3 { o[i] += local[i]; }
        crate::engine::crumb::clear();
    });
    let o = outcomes.lock().unwrap();
    rep.eval(total);
    rep.add_states(total, total);
    rep.extra("classifier_sequences_enumerated", json!(total));
    rep.extra("classifier_sequences_checked", json!(counted.load(std::sync::atomic::Ordering::Relaxed)));
    rep.extra("classifier_sequences_outside_grammar_skipped", json!(skipped.load(std::sync::atomic::Ordering::Relaxed)));
    rep.extra("classifier_results", json!({"Other": o[0] + l0[0], "DateTime": o[1] + l0[1], "TimeDelta": o[2] + l0[2]}));
    rep.case(hash_of(&"classifier"), true, hash_of(&(o[0], o[1], o[2])));
    // built-in ids of ECMA-376 18.8.30 (locale-dependent ids 23-36, 50-58 are not asserted)
    for id in (0u16..=22).chain(37..=49) {
        let exp = match id { 14..=22 | 45 | 47 => 1, 46 => 2, _ => 0 };
        let a = calamine::verif::formats::builtin_format_by_id(id.to_string().as_bytes());
        let b = calamine::verif::formats::builtin_format_by_code(id);
        rep.eval(2);
        rep.case(hash_of(&("builtin", id)), true, hash_of(&(a, b)));
        if a != exp || b != exp { rep.fail(&format!("builtin/{id}"), &format!("built-in format {id}: by_id={a} by_code={b}, expected {exp}"), || Replay { json: json!({"builtin_id": id}), files: vec![] }); }
    }
}

// ------------------------------------------------------------------------------------------------
/// style kinds: (label, numFmtId, custom code if any, expected class)
fn style_kinds() -> Vec<(&'static str, u16, Option<&'static str>, u8)> {
    vec![
        ("general", 0, None, 0), ("builtin 14 date", 14, None, 1), ("builtin 46 elapsed", 46, None, 2), ("builtin 2 0.00", 2, None, 0),
        ("custom date", 164, Some("yyyy\\-mm\\-dd"), 1), ("custom number", 165, Some("0.00\" d\""), 0), ("custom elapsed", 166, Some("[mm]:ss"), 2),
        ("custom quoted prefix date", 167, Some("\"Date: \"yyyy"), 1), ("custom colour+number", 168, Some("[Red]0;[Blue]-0"), 0),
        ("builtin 22 datetime", 22, None, 1), ("builtin 45 mm:ss", 45, None, 1), ("custom id below 164 with date code", 41, Some("dd/mm/yy"), 1),
        ("builtin 49 text", 49, None, 0), ("custom date in 2nd section only", 169, Some("0;yyyy"), 0),
    ]
}

struct FCase { bytes: Vec<u8>, expect: Data, desc: String, fmt: &'static str }

fn build(ch: &mut Chooser, fmt: &'static str) -> FCase {
    let sk = style_kinds();
    let k = ch.choose("style-kind", sk.len());
    let (label, id, code, class) = sk[k];
    // the last one is 00:00:05 as a fraction of a day: small magnitudes are written in scientific notation
    let values = [44197.0f64, 0.5, 44197.75, 1.0, 60.0, -1.5, 5.787037037037037e-5];
    let v = values[ch.choose("value", values.len())];
    let is1904 = ch.flag("date1904");
    // style table: the wanted XF sits at index `pos` among decoys
    let decoys: [u16; 3] = [0, 14, 2];
    let pos = ch.choose("xf-position", 3) as u32;
    let mut xfs: Vec<u16> = vec![];
    for i in 0..3u32 { if i == pos { xfs.push(id); } xfs.push(decoys[i as usize]); }
    if pos >= 3 { xfs.push(id); }
    let style = pos + if pos > 0 { pos } else { 0 };
    let style = xfs.iter().position(|x| *x == id && true).map(|p| p as u32).unwrap_or(style);
    // when the wanted id equals a decoy id the first occurrence is fine (same format)
    let mut fmts: Vec<(u16, String)> = vec![(170, "0.0".into())];
    if let Some(c) = code { fmts.push((id, c.to_string())); }
    let out_of_range = ch.flag("style-index-out-of-range");
    let (style, class) = if out_of_range { (99, 0) } else { (style, class) };
    let expect_num = |v: f64| -> Data {
        match class {
            1 => Data::DateTime(ExcelDateTime::new(v, ExcelDateTimeType::DateTime, is1904)),
            2 => Data::DateTime(ExcelDateTime::new(v, ExcelDateTimeType::TimeDelta, is1904)),
            _ => Data::Float(v),
        }
    };
    match fmt {
        "xlsx" => {
            let encn = ch.choose("xlsx.number-encoding", 3); // untyped, t="n", formula result
            let prefix = ch.flag("xlsx.prefix");
            let omit = ch.flag("xlsx.general-xf-without-numFmtId");
            // numFmtId is an unsignedInt: custom ids need not fit 16 bits
            let wide_ids = ch.flag("xlsx.custom-format-ids-above-65535");
            let big = |id: u16| -> u32 { if wide_ids && id >= 164 { id as u32 + 70_000 } else { id as u32 } };
            // Excel writes small magnitudes as 5.787037037037037E-5 (upper-case E), other writers with a lower-case e
            let text = if v.abs() < 1e-4 && v != 0.0 { let t = format!("{v:E}"); if k % 2 == 0 { t } else { t.to_lowercase() } } else { format!("{v}") };
            let mut c = xlsx::XCell::new(1, 1, xlsx::XVal::Num(text));
            c.style = Some(style);
            if encn == 2 { c.formula = Some(xlsx::XFormula::Plain("1+1".into())); }
            let book = xlsx::XBook { sheets: vec![xlsx::XSheet::new("S", vec![c])], styles: Some(xlsx::XStyles { num_fmts: fmts.iter().map(|(a, b)| (big(*a), b.clone())).collect(), cell_xfs: xfs.iter().map(|x| big(*x)).collect(), cell_style_xfs: vec![14, 0], omit_general_numfmt: omit }), date1904: Some(is1904), ..Default::default() };
            let e = xlsx::XEnc { prefix, explicit_t_n: encn == 1, apply_nf: ch.choose("xlsx.applyNumberFormat(1,absent,0)", 3) as u8, numfmt_code_first: k % 2 == 1, bool_words: v.fract() != 0.0, extras: k % 3 == 1, cell_attrs_reversed: k % 2 == 0 && encn == 0, ..Default::default() };
            FCase { bytes: xlsx::write(&book, &e), expect: expect_num(v), desc: format!("xlsx style={label} v={v} 1904={is1904} enc={encn} prefix={prefix} general-xf-without-numFmtId={omit} xf@{style}"), fmt }
        }
        "xls" => {
            let mut encs: Vec<(&str, u32)> = vec![("number", 0)];
            encs.extend(biff8::rk_encodings(v));
            encs.push(("formula", 0));
            let (ename, w) = encs[ch.choose("xls.number-encoding", encs.len()).min(encs.len() - 1)];
            let mulrk = ename.starts_with("rk") && ch.flag("xls.in-mulrk");
            let st = style as u16;
            let cell = match ename {
                "number" => biff8::BCell::Number { r: 1, c: 1, xf: st, v },
                "formula" => biff8::BCell::Formula { r: 1, c: 1, xf: st, res: biff8::FRes::Num(v), rgce: vec![0x1E, 1, 0] },
                _ if mulrk => biff8::BCell::MulRk { r: 1, c0: 0, items: vec![(0, 6), (st, w)] },
                _ => biff8::BCell::Rk { r: 1, c: 1, xf: st, rk: w },
            };
            let book = biff8::BBook { sheets: vec![biff8::BSheet::new("S", vec![cell])], formats: fmts.clone(), xfs: xfs.clone(), date1904: is1904, formats_wide: ch.flag("xls.format-strings-16bit"), ..Default::default() };
            let mut stream = biff8::workbook_stream(&book);
            if stream.len() < 4096 { stream.resize(4096, 0); }
            // an integer-valued RK int with a non-date style reads as Int
            let expect = match (class, ename) { (0, "rk-int") => Data::Int(v as i64), (0, "rk-int-x100") if v.fract() == 0.0 => Data::Int(v as i64), _ => expect_num(v) };
            FCase { bytes: cfb::simple(&[("Workbook", stream)], &cfb::Layout::default()), expect, desc: format!("xls style={label} v={v} 1904={is1904} enc={ename} mulrk={mulrk} xf@{style}"), fmt }
        }
        _ => {
            let mut encs: Vec<(&str, u32)> = vec![("real", 0)];
            encs.extend(biff8::rk_encodings(v));
            encs.push(("fmlanum", 0));
            let (ename, w) = encs[ch.choose("xlsb.number-encoding", encs.len()).min(encs.len() - 1)];
            let val = match ename { "real" => xlsb::BVal::Real(v), "fmlanum" => xlsb::BVal::FmlaNum(v, vec![0x1E, 1, 0]), _ => xlsb::BVal::Rk(w) };
            let mut sh = xlsb::BSheet::new("S", vec![xlsb::BItem::Cell { row: 1, col: 1, style, val }]);
            let ph = ch.flag("xlsb.cell-fPhShow-bit-set");
            if ph { sh.cell_flags = 1; }
            // a workbook with thousands of cell formats: the wanted XF is then the last of 5000
            let many = ch.flag("xlsb.xf-table-of-5000-entries");
            let (xfs2, style2) = if many && !out_of_range { let mut v: Vec<u16> = xfs.clone(); let want = xfs[style as usize]; v.resize(4999, 0); v.push(want); (v, 4999u32) } else { (xfs.clone(), style) };
            if many { sh = { let mut s2 = xlsb::BSheet::new("S", vec![xlsb::BItem::Cell { row: 1, col: 1, style: style2, val: match ename { "real" => xlsb::BVal::Real(v), "fmlanum" => xlsb::BVal::FmlaNum(v, vec![0x1E, 1, 0]), _ => xlsb::BVal::Rk(w) } }]); if ph { s2.cell_flags = 1; } s2 }; }
            let book = xlsb::BBook { sheets: vec![sh], fmts: fmts.clone(), xfs: xfs2, date1904: is1904, ..Default::default() };
            let expect = match (class, ename) { (0, "rk-int") => Data::Int(v as i64), _ => expect_num(v) };
            FCase { bytes: xlsb::write(&book, Method::Deflated), expect, desc: format!("xlsb style={label} v={v} 1904={is1904} enc={ename} fPhShow={ph} xf@{style}"), fmt }
        }
    }
}

fn read(fmt: &str, bytes: &[u8]) -> Result<Data, String> {
    fn go<R: Reader<Cursor<Vec<u8>>>>(b: &[u8]) -> Result<Data, String> where R::Error: std::fmt::Debug {
        let mut wb = R::new(Cursor::new(b.to_vec())).map_err(|e| format!("open: {e:?}"))?;
        let r = wb.worksheet_range("S").map_err(|e| format!("worksheet_range: {e:?}"))?;
        Ok(r.get_value((1, 1)).cloned().unwrap_or(Data::Empty))
    }
    match fmt { "xlsx" => go::<Xlsx<_>>(bytes), "xlsb" => go::<Xlsb<_>>(bytes), _ => go::<Xls<_>>(bytes) }
}

fn same_num(a: &Data, b: &Data) -> bool {
    match (a, b) { (Data::Float(x), Data::Int(y)) | (Data::Int(y), Data::Float(x)) => *x == *y as f64, _ => a == b }
}

fn run_case(rep: &Report, ch: &mut Chooser, fmt: &'static str, local: &mut Vec<(u64, bool, u64)>) {
    let c = build(ch, fmt);
    rep.eval(1);
    let replay = || Replay { json: json!({"format": fmt, "choices": ch.choices(), "case": c.desc}), files: vec![(fmt.to_string(), c.bytes.clone())] };
    let res = guarded(|| read(c.fmt, &c.bytes));
    let outcome = match &res {
        Err(p) => { let site = normalise_site(p.rsplit(" @ ").next().unwrap_or("")); rep.fail(&format!("{fmt}/panic/{site}"), &format!("reader panicked: {p} [{}]", c.desc), replay); hash_of(p) }
        Ok(Err(e)) => { let cl: String = e.chars().take_while(|c| *c != '(' && *c != '{').collect(); rep.fail(&format!("{fmt}/error/{}", cl.trim()), &format!("well-formed file rejected: {e} [{}]", c.desc), replay); hash_of(e) }
        Ok(Ok(got)) => {
            let ok = same_num(got, &c.expect) && (matches!(got, Data::DateTime(_)) == matches!(c.expect, Data::DateTime(_)));
            if !ok {
                let kind = match (&c.expect, got) {
                    (Data::DateTime(_), Data::DateTime(g)) => { let e = if let Data::DateTime(e) = &c.expect { *e } else { unreachable!() }; if e.as_f64() != g.as_f64() { "serial" } else if format!("{e:?}").contains("is_1904: true") != format!("{g:?}").contains("is_1904: true") { "date-system" } else { "flavour" } }
                    (Data::DateTime(_), _) => "date-as-number",
                    (_, Data::DateTime(_)) => "number-as-date",
                    _ => "value",
                };
                let style: String = c.desc.split(" v=").next().unwrap_or("").to_string();
                let enc: String = c.desc.split("enc=").nth(1).unwrap_or("").split(' ').next().unwrap_or("").to_string();
                rep.fail(&format!("{kind}/{fmt}/{}", if kind == "date-as-number" || kind == "value" { enc } else { style.split("style=").nth(1).unwrap_or("").split(" ").next().unwrap_or("").to_string() }), &format!("read {got:?}, expected {:?} [{}]", c.expect, c.desc), replay);
            }
            hash_of(&format!("{got:?}"))
        }
    };
    local.push((hash_of(&c.bytes), !ch.is_default(), outcome));
    if rep.want_sample() && ch.choices().iter().filter(|x| **x != 0).count() >= 3 { rep.sample(json!({"case": c.desc, "read": format!("{res:?}")})); }
}

pub fn check(rep: &Report) {
    let t = crate::thorough(&rep.tier);
    rep.rule("(a) every sequence of <= 3 (thorough 5) tokens over a 61-token alphabet of the number-format grammar (digit placeholders, General/@, date/time tokens in both cases, AM/PM, elapsed [h] [mm] [ss], quoted literals incl. ones ending in _ or \\, backslash and underscore escapes, colour/condition/locale/currency brackets, separators, ';') through the real classifier vs a token-level reference (sequences mixing General/@ with date tokens or using an elapsed token after a date token are outside the grammar and skipped); all built-in ids 0-22, 37-49; (b) full product of 14 style kinds x 7 values x 1900/1904 x XF position x style index out of range x every number encoding (xlsx untyped/t=n/formula; xls NUMBER/RK forms/MULRK/FORMULA; xlsb Real/RK forms/FmlaNum) x prefix, end to end; non-trivial = non-default choice / non-empty sequence");
    rep.assume("locale-dependent built-in ids (23-36, 50-58) are not asserted; an integer-valued RK int with a non-date style may read as Int");
    classifier_sweep(rep, if t { 5 } else { 3 });
    let stats = Mutex::new(Stats::default());
    ["xlsx", "xls", "xlsb"].par_iter().for_each(|fmt| {
        crate::engine::crumb::set_job(&format!("C10 file-level format={fmt}"));
        let mut st = Stats::default();
        let mut local = vec![];
        explore_full(|ch| run_case(rep, ch, fmt, &mut local), &mut st, u64::MAX);
        rep.cases_bulk(&local);
        stats.lock().unwrap().merge(&st);
        crate::engine::crumb::clear();
    });
    let st = stats.lock().unwrap();
    rep.add_states(st.nodes, st.edges);
    rep.trace(st.executions + rep.evaluations.load(std::sync::atomic::Ordering::Relaxed));
    rep.extra("file_level_executions", json!(st.executions));
    rep.extra("choice_labels_covered", st.label_summary());
    rep.exhaustive(true);
}

pub fn replay(path: &str) -> i32 {
    let Ok(s) = std::fs::read_to_string(path) else { return 2 };
    let v: serde_json::Value = serde_json::from_str(&s).unwrap();
    if let Some(code) = v.get("format_code").and_then(|c| c.as_str()) {
        println!("format {code:?}: classifier says {}; recorded: {}", calamine::verif::formats::detect_custom_number_format(code), v["what"]);
        return 0;
    }
    if let Some(id) = v.get("builtin_id").and_then(|c| c.as_u64()) { println!("builtin {id}: by_code={}", calamine::verif::formats::builtin_format_by_code(id as u16)); return 0; }
    let choices: Vec<u32> = v["choices"].as_array().unwrap().iter().map(|x| x.as_u64().unwrap() as u32).collect();
    let fmt: &'static str = match v["format"].as_str().unwrap() { "xlsx" => "xlsx", "xls" => "xls", _ => "xlsb" };
    let mut outs = vec![];
    for _ in 0..2 {
        let mut o = String::new();
        run_one(|ch| { let c = build(ch, fmt); o = format!("{}: read {:?}, expected {:?}", c.desc, guarded(|| read(fmt, &c.bytes)), c.expect); }, &choices);
        outs.push(o);
    }
    if outs[0] != outs[1] { eprintln!("MACHINERY: replay not deterministic"); return 2; }
    println!("recorded: {}\nobserved now: {}", v["what"], outs[0]);
    0
}
