//! C12 — XLS strings decode identically however records are split and characters packed.
//! E1: string tables x every legal set of CONTINUE cut points x per-segment 8/16-bit packing.
use crate::engine::choice::{estimate_product, explore_deviations, explore_full, run_one, Chooser, Stats};
use crate::engine::report::{Replay, Report};
use crate::engine::{guarded, hash_of, normalise_site};
use crate::gen::biff8::*;
use crate::gen::cfb;
use calamine::{Data, Reader, Xls};
use rayon::prelude::*;
use serde_json::json;
use std::io::Cursor;
use std::sync::Mutex;

const ALPHA: [&str; 5] = ["a", "\u{e9}", "\u{20ac}", "\u{1F600}", "\u{91}"];

fn build(ch: &mut Chooser, table: &[SstString]) -> (Vec<u8>, Vec<((u32, u32), Data)>, String, serde_json::Value) {
    let sst = sst_records(ch, table, table.len() as u32);
    // cells: every string referenced twice (column 0 ascending, column 2 descending) + LABEL + FORMULA/STRING
    let mut cells = vec![];
    let mut exp = vec![];
    let n = table.len() as u16;
    for (i, s) in table.iter().enumerate() {
        cells.push(BCell::LabelSst { r: i as u16, c: 0, xf: 0, isst: i as u32 });
        cells.push(BCell::LabelSst { r: i as u16, c: 2, xf: 0, isst: (table.len() - 1 - i) as u32 });
        if !s.text.is_empty() { exp.push(((i as u32, 0), Data::String(s.text.clone()))); }
        let o = &table[table.len() - 1 - i];
        if !o.text.is_empty() { exp.push(((i as u32, 2), Data::String(o.text.clone()))); }
    }
    // inline texts are not limited to 255 characters: the count is a 16-bit field
    let long = ch.flag("label-and-formula-string-of-300-characters");
    let lab: String = if long { format!("l\u{e4}b{}", "x".repeat(297)) } else { "l\u{e4}b".into() };
    let lw = ch.flag("label-16bit");
    cells.push(BCell::Label { r: n, c: 1, xf: 0, text: lab.clone(), wide: lw });
    exp.push(((n as u32, 1), Data::String(lab)));
    let fw = ch.flag("formula-string-16bit");
    let fs: String = if long { format!("f\u{f6}rm{}", "y".repeat(296)) } else { "f\u{f6}rm".into() };
    // the STRING record follows the FORMULA record directly, or after the SHRFMLA / ARRAY / TABLE record of a defining cell
    let via = ch.pick("record-between-formula-and-string(none,SHRFMLA,ARRAY,TABLE)", &[0u16, 0x04BC, 0x0221, 0x0236]);
    cells.push(BCell::Formula { r: n + 1, c: 0, xf: 0, res: if via == 0 { FRes::Str(fs.clone(), fw) } else { FRes::StrVia(fs.clone(), fw, via) }, rgce: vec![0x1E, 1, 0] });
    exp.push(((n as u32 + 1, 0), Data::String(fs)));
    cells.sort_by_key(|c| match c { BCell::LabelSst { r, c, .. } | BCell::Label { r, c, .. } | BCell::Formula { r, c, .. } => (*r, *c), _ => (0, 0) });
    let name = "Sh\u{e9}et";
    let mut sheet = BSheet::new(name, cells);
    sheet.name_wide = ch.flag("sheet-name-16bit");
    let book = BBook { sheets: vec![sheet], sst_records: sst.clone(), ..Default::default() };
    let mut stream = workbook_stream(&book);
    if stream.len() < 4096 { stream.resize(4096, 0); }
    let bytes = cfb::simple(&[("Workbook", stream)], &cfb::Layout::default());
    // describe the physical SST records
    let mut recs = vec![];
    let mut p = 0;
    while p + 4 <= sst.len() { let l = u16::from_le_bytes([sst[p + 2], sst[p + 3]]) as usize; recs.push(format!("{:04x}:{}", u16::from_le_bytes([sst[p], sst[p + 1]]), sst[p + 4..p + 4 + l.min(24)].iter().map(|b| format!("{b:02x}")).collect::<String>())); p += 4 + l; }
    let desc = json!({"table": table.iter().map(|s| json!({"text": s.text, "runs": s.runs, "ext": s.ext.len()})).collect::<Vec<_>>(), "sst_records": recs, "label16": lw, "formula16": fw, "name16": book.sheets[0].name_wide});
    (bytes, exp, name.to_string(), desc)
}

fn run_case(rep: &Report, ch: &mut Chooser, table: &[SstString], local: &mut Vec<(u64, bool, u64)>, dry: bool) {
    let (bytes, exp, name, desc) = build(ch, table);
    if dry { return; }
    rep.eval(1);
    let replay = || Replay { json: json!({"table": table.iter().map(|s| json!([s.text, s.runs, s.ext])).collect::<Vec<_>>(), "choices": ch.choices(), "case": desc}), files: vec![("xls".into(), bytes.clone())] };
    let res = guarded(|| -> Result<(Vec<String>, calamine::Range<Data>), String> {
        let mut wb: Xls<_> = Xls::new(Cursor::new(bytes.clone())).map_err(|e| format!("open: {e:?}"))?;
        let names = wb.sheet_names();
        let r = wb.worksheet_range(&name).map_err(|e| format!("worksheet_range({name}): {e:?} (sheets {names:?})"))?;
        Ok((names, r))
    });
    let rich = table.iter().any(|s| s.runs > 0 || !s.ext.is_empty());
    let outcome = match &res {
        Err(p) => { let site = normalise_site(p.rsplit(" @ ").next().unwrap_or("")); rep.fail(&format!("panic/{site}"), &format!("reader panicked: {p}"), replay); hash_of(p) }
        Ok(Err(e)) => { let class: String = e.chars().take_while(|c| *c != '(' && *c != '{').collect(); rep.fail(&format!("error/{}{}", class.trim(), if rich { "/rich" } else { "" }), &format!("well-formed workbook rejected: {e}"), replay); hash_of(e) }
        Ok(Ok((names, r))) => {
            if names != &vec![name.clone()] { rep.fail("sheet-name", &format!("sheet names {names:?}, expected [{name}]"), replay); }
            for (pos, d) in &exp {
                let got = r.get_value(*pos).cloned().unwrap_or(Data::Empty);
                if got != *d {
                    let which = if pos.0 as usize >= table.len() { if pos.1 == 1 { "label" } else { "formula-string" } } else { "sst" };
                    rep.fail(&format!("text/{which}{}", if rich { "/rich" } else { "" }), &format!("at {pos:?} got {got:?}, expected {d:?}"), replay);
                    break;
                }
            }
            let n_used = r.used_cells().count();
            if n_used != exp.len() { rep.fail("cell-count", &format!("{n_used} non-empty cells, expected {}", exp.len()), replay); }
            hash_of(&format!("{exp:?}"))
        }
    };
    local.push((hash_of(&bytes), !ch.is_default(), outcome));
    if rep.want_sample() && ch.choices().iter().filter(|x| **x != 0).count() >= 3 { rep.sample(desc); }
}

fn texts(maxlen: usize) -> Vec<String> {
    let mut out = vec![String::new()];
    let mut cur = vec![String::new()];
    for _ in 0..maxlen {
        let mut next = vec![];
        for c in &cur { for a in ALPHA { next.push(format!("{c}{a}")); } }
        out.extend(next.iter().cloned());
        cur = next;
    }
    out
}

fn rich_variants() -> Vec<(usize, Vec<u8>)> { vec![(0, vec![]), (2, vec![]), (0, vec![1, 2, 3, 4, 5]), (1, vec![9, 8, 7]), (crate::gen::biff8::EMPTY_EXT, vec![]), (1 | crate::gen::biff8::EMPTY_EXT, vec![])] }

pub fn check(rep: &Report) {
    let t = crate::thorough(&rep.tier);
    // cells referring to strings past the 8- and 16-bit index boundaries of large tables (shared with C02)
    crate::props::c02::large_sst(rep);
    rep.rule("string tables = every single string of <= 3 characters plus every 4-character string without the astral character (thorough: every 4-character string) over {a, e-acute (8-bit compressible), euro (needs 16-bit), U+1F600 (surrogate pair), U+0091 (a C1 code point: compressed bytes are Latin-1, not windows-1252)} x 6 rich/ExtRst variants (incl. the fExtSt flag with a zero-length block); every pair of strings of <= 2 chars x rich variants on the first; triples over a 4-text set x rich variants on the middle one; plus (thorough) a 32767-character and a 9000-character string forcing cuts at the 8224-byte limit; encoding = every subset of legal cut points (between strings, between characters but never inside a surrogate pair, between formatting runs, anywhere in ExtRst) x 8/16-bit packing of every compressible segment; LABEL, FORMULA+STRING and sheet name in both packings; full product when <= limit else <= d deviations; non-trivial = any non-default choice; distinct by file bytes");
    rep.assume("cuts inside the 3-byte string header, inside cRun/cbExtRst fields or inside a surrogate pair are not generated (not legal / conservative reading of 'between characters')");
    let mut tables: Vec<Vec<SstString>> = vec![];
    for tx in texts(3).into_iter().chain(texts(4).into_iter().filter(|x| x.chars().count() == 4 && (t || !x.contains('\u{1F600}'))).collect::<Vec<_>>()) { for (runs, ext) in rich_variants() { tables.push(vec![SstString { text: tx.clone(), runs, ext }]); } }
    let small = texts(2);
    for a in &small { for b in &small { for (runs, ext) in rich_variants() { tables.push(vec![SstString { text: a.clone(), runs, ext }, SstString::plain(b)]); } } }
    let tiny = ["", "a", "\u{e9}\u{20ac}", "\u{1F600}a", "\u{91}b"];
    for a in tiny { for b in tiny { for c in tiny { for (runs, ext) in rich_variants() { tables.push(vec![SstString::plain(a), SstString { text: b.into(), runs, ext }, SstString::plain(c)]); } } } }
    let stats = Mutex::new(Stats::default());
    let limit = if t { 3_000.0 } else { 400.0 };
    let dev = if t { 3 } else { 2 };
    let full = std::sync::atomic::AtomicU64::new(0);
    tables.par_iter().for_each(|tb| {
        crate::engine::crumb::set_job(&format!("C12 table={:?}", tb.iter().map(|s| (&s.text, s.runs, s.ext.len())).collect::<Vec<_>>()));
        let mut st = Stats::default();
        let mut local = vec![];
        let est = estimate_product(|ch| run_case(rep, ch, tb, &mut vec![], true));
        if est <= limit { explore_full(|ch| run_case(rep, ch, tb, &mut local, false), &mut st, u64::MAX); full.fetch_add(1, std::sync::atomic::Ordering::Relaxed); }
        else { explore_deviations(|ch| run_case(rep, ch, tb, &mut local, false), dev, &mut st); }
        rep.cases_bulk(&local);
        stats.lock().unwrap().merge(&st);
        crate::engine::crumb::clear();
    });
    // long strings: forced cuts at the record limit, every packing regime
    let mut longs: Vec<Vec<SstString>> = vec![];
    let a9000: String = "ab\u{e9}".repeat(3000);
    let w9000: String = "a\u{20ac}".repeat(4500);
    longs.push(vec![SstString::plain("x"), SstString { text: a9000.clone(), runs: 1, ext: vec![1, 2, 3] }, SstString::plain("tail")]);
    longs.push(vec![SstString::plain(&w9000), SstString::plain("tail\u{20ac}")]);
    if t {
        longs.push(vec![SstString::plain(&"q".repeat(32767)), SstString::plain("after")]);
        longs.push(vec![SstString::plain(&"\u{20ac}\u{1F600}z".repeat(8191)), SstString::plain("after")]);
    }
    for tb in &longs {
        crate::engine::crumb::set_job(&format!("C12 long table lens={:?}", tb.iter().map(|s| s.text.len()).collect::<Vec<_>>()));
        let mut st = Stats::default();
        let mut local = vec![];
        // only the default (forced cuts) plus the three packing flags: the cut-choice tree of a 9000-char string is not enumerated
        let mut first = true;
        explore_deviations(|ch| { if first { first = false; } run_case(rep, ch, tb, &mut local, false) }, 0, &mut st);
        rep.cases_bulk(&local);
        stats.lock().unwrap().merge(&st);
        crate::engine::crumb::clear();
    }
    let st = stats.lock().unwrap();
    rep.add_states(st.nodes, st.edges);
    rep.trace(st.executions);
    rep.extra("string_tables", json!(tables.len() + longs.len()));
    rep.extra("tables_with_full_cut_product", json!(full.load(std::sync::atomic::Ordering::Relaxed)));
    rep.extra("deviation_bound_on_the_rest", json!(dev));
    rep.extra("choice_labels_covered", st.label_summary());
    rep.exhaustive(true);
}

pub fn replay(path: &str) -> i32 {
    let Ok(s) = std::fs::read_to_string(path) else { return 2 };
    let v: serde_json::Value = serde_json::from_str(&s).unwrap();
    if v.get("large_sst").is_some() { return crate::props::c02::replay(path); }
    let choices: Vec<u32> = v["choices"].as_array().unwrap().iter().map(|x| x.as_u64().unwrap() as u32).collect();
    let table: Vec<SstString> = v["table"].as_array().unwrap().iter().map(|e| SstString { text: e[0].as_str().unwrap().to_string(), runs: e[1].as_u64().unwrap() as usize, ext: e[2].as_array().unwrap().iter().map(|b| b.as_u64().unwrap() as u8).collect() }).collect();
    let mut outs = vec![];
    for _ in 0..2 {
        let mut o = String::new();
        run_one(|ch| { let (bytes, exp, _, _) = build(ch, &table); o = format!("{:?}\nexpected: {exp:?}", guarded(|| crate::props::dump::dump_xls(&bytes))); }, &choices);
        outs.push(o);
    }
    if outs[0] != outs[1] { eprintln!("MACHINERY: replay not deterministic"); return 2; }
    println!("case: {}\nrecorded: {}\nobserved now: {}", v["case"], v["what"], outs[0]);
    0
}
