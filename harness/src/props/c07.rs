//! C07 — read calls are pure and the alternative access paths agree.
//! E2: every call sequence up to depth 3 (thorough 5) over the Reader / ReaderRef API of one feature-rich
//! workbook per format, replayed on a fresh reader; differential oracle: each result equals the same
//! call made first on a fresh reader under the header-row option then in force.
use crate::engine::report::{Replay, Report};
use crate::engine::{guarded, hash_of, normalise_site};
use crate::gen::ovba::*;
use crate::gen::zipw::Method;
use crate::gen::{biff8, cfb, ods, xlsb, xlsx};
use crate::model::sheet::{range_digest, range_ref_to_data};
use calamine::{open_workbook_auto_from_rs, Data, HeaderRow, Ods, Range, Reader, ReaderRef, Sheets, Xls, Xlsb, Xlsx};
use rayon::prelude::*;
use serde_json::json;
use std::collections::HashMap;
use std::io::Cursor;

const FORMATS: [&str; 4] = ["xlsx", "xlsb", "xls", "ods"];
const S: [&str; 3] = ["Data", "Second", "Other"];

fn project() -> VProject {
    VProject { codepage: 1252, // five modules: the order in which a project lists them must not change from call to call or reader to reader
        modules: ["Module1", "ThisWorkbook", "Sheet1", "Helpers", "AaModule"].iter().enumerate().map(|(i, n)| VModule { name: n.to_string(), stream_name: n.to_string(), source: format!("Sub A{i}()\r\nEnd Sub\r\n").into_bytes(), text_offset: 0, mode: 0, class_module: i == 1 || i == 2, read_only: false, private: false }).collect(), refs: vec![VRef { name: "stdole".into(), kind: RefKind::Registered }], compat_version: false, descriptive: false }
}

pub fn workbook(fmt: &str) -> Vec<u8> {
    match fmt {
        "xlsx" => {
            let mut b = xlsx::XBook::default();
            b.sst = vec![xlsx::XText::plain("alpha"), xlsx::XText { runs: vec![xlsx::XRun::R("be".into()), xlsx::XRun::R("ta".into())], enc: xlsx::TextEnc::Entities }];
            b.styles = Some(xlsx::XStyles { num_fmts: vec![], cell_xfs: vec![0, 14], cell_style_xfs: vec![0], omit_general_numfmt: false });
            let mut cells = vec![];
            for r in [1u32, 2, 4, 5] { // gap at row 3
                cells.push(xlsx::XCell::new(r, 1, xlsx::XVal::SharedStr((r % 2) as usize)));
                let mut c = xlsx::XCell::new(r, 2, xlsx::XVal::Num(format!("{}", r * 10)));
                if r == 1 { c.formula = Some(xlsx::XFormula::SharedMaster { si: 0, rf: "C2:C6".into(), text: "B2&$A$1".into() }); } else { c.formula = Some(xlsx::XFormula::SharedChild { si: 0 }); }
                cells.push(c);
                let mut d = xlsx::XCell::new(r, 3, xlsx::XVal::Num("44197".into())); d.style = Some(1); cells.push(d);
            }
            // 2-D shared group E8:F9
            for (r, c) in [(7u32, 4u32), (7, 5), (8, 4), (8, 5)] {
                let mut x = xlsx::XCell::new(r, c, xlsx::XVal::Num("1".into()));
                x.formula = Some(if (r, c) == (7, 4) { xlsx::XFormula::SharedMaster { si: 1, rf: "E8:F9".into(), text: "A1+$B1".into() } } else { xlsx::XFormula::SharedChild { si: 1 } });
                cells.push(x);
            }
            let mut s0 = xlsx::XSheet::new(S[0], cells);
            s0.merges = vec!["B2:C2".into(), "E8:F9".into()];
            s0.tables = vec![xlsx::XTable { name: "T1".into(), display_name: "T1".into(), rf: "B2:D6".into(), header_rows: None, totals_rows: None, totals_row_shown: None, columns: vec!["k".into(), "v".into(), "d".into()], extras: false }];
            b.sheets.push(s0);
            let mut ch = xlsx::XSheet::new(S[1], vec![]); ch.kind = xlsx::SheetKind::Chart; b.sheets.push(ch);
            let mut o = xlsx::XCell::new(0, 0, xlsx::XVal::Num("3".into())); o.formula = Some(xlsx::XFormula::Plain("1+2".into()));
            b.sheets.push(xlsx::XSheet::new(S[2], vec![o, xlsx::XCell::new(6, 2, xlsx::XVal::InlineStr(xlsx::XText::plain("far")))]));
            b.defined_names = vec![("n1".into(), "Data!$B$2".into())];
            b.vba = Some(cfb::write(&project_entries(&project(), false, 0), &cfb::Layout::default()));
            xlsx::write(&b, &xlsx::XEnc::default())
        }
        "xlsb" => {
            let mut items = vec![];
            for r in [1u32, 2, 4, 5] {
                items.push(xlsb::BItem::Cell { row: r, col: 1, style: 0, val: xlsb::BVal::Isst(r % 2) });
                items.push(xlsb::BItem::Cell { row: r, col: 2, style: 0, val: xlsb::BVal::FmlaNum((r * 10) as f64, vec![0x44, 0, 0, 0, 0, 1, 0xC0]) });
                items.push(xlsb::BItem::Cell { row: r, col: 3, style: 1, val: xlsb::BVal::Real(44197.0) });
            }
            // a chart sheet in second place (a sheet that cannot be read as cells before sheets that can) and a macro sheet, which
            // holds cells like a worksheet
            let mut chart = xlsb::BSheet::new("Chart1", vec![]); chart.dir = "chartsheets";
            let mut mac = xlsb::BSheet::new("Macro1", vec![xlsb::BItem::Cell { row: 1, col: 0, style: 0, val: xlsb::BVal::Real(7.0) }]); mac.dir = "macrosheets";
            let b = xlsb::BBook { sheets: vec![xlsb::BSheet::new(S[0], items), chart, xlsb::BSheet::new(S[1], vec![xlsb::BItem::Cell { row: 2, col: 2, style: 0, val: xlsb::BVal::St("two".into()) }]), xlsb::BSheet::new(S[2], vec![xlsb::BItem::Cell { row: 0, col: 0, style: 0, val: xlsb::BVal::FmlaStr("r".into(), vec![0x17, 1, 0, b'r', 0]) }]), mac],
                sst: vec!["alpha".into(), "beta".into()], xfs: vec![0, 14], vba: Some(cfb::write(&project_entries(&project(), false, 0), &cfb::Layout::default())), ..Default::default() };
            xlsb::write(&b, Method::Deflated)
        }
        "xls" => {
            let mut cells = vec![];
            for r in [1u16, 2, 4, 5] {
                cells.push(biff8::BCell::LabelSst { r, c: 1, xf: 0, isst: (r % 2) as u32 });
                cells.push(biff8::BCell::Formula { r, c: 2, xf: 0, res: biff8::FRes::Num((r * 10) as f64), rgce: vec![0x44, 0, 0, 1, 0xC0] });
                cells.push(biff8::BCell::Number { r, c: 3, xf: 1, v: 44197.0 });
            }
            let mut s0 = biff8::BSheet::new(S[0], cells);
            s0.merges = vec![vec![(1, 1, 1, 2), (7, 8, 4, 5)]];
            let mut chs = crate::engine::choice::Chooser::new(&[]);
            let b = biff8::BBook { sheets: vec![s0, biff8::BSheet::new(S[1], vec![biff8::BCell::Label { r: 2, c: 2, xf: 0, text: "two".into(), wide: false }]), biff8::BSheet::new(S[2], vec![biff8::BCell::Formula { r: 0, c: 0, xf: 0, res: biff8::FRes::Str("r".into(), false), rgce: vec![0x17, 1, 0, b'r'] }])],
                sst_records: biff8::sst_records(&mut chs, &[biff8::SstString::plain("alpha"), biff8::SstString::plain("beta")], 2), xfs: vec![0, 14], ..Default::default() };
            let mut e = vec![cfb::Entry::stream("Workbook", biff8::workbook_stream(&b), None)];
            e.extend(project_entries(&project(), true, 1));
            cfb::write(&e, &cfb::Layout::default())
        }
        _ => {
            let f = |v: &str| ods::OCell::new(ods::OVal::Float(v.into(), "float"));
            let s = |v: &str| ods::OCell::new(ods::OVal::StrContent(v.into(), ods::SpaceMode::TextS, false));
            let mut fc = f("10"); fc.formula = Some("of:=[.B2]&[.$A$1]".into());
            let rows0 = vec![
                ods::ORow { cells: vec![(ods::OCell::empty(), 1)], repeat: 1 },
                ods::ORow { cells: vec![(ods::OCell::empty(), 1), (s("alpha"), 1), (fc.clone(), 1), (ods::OCell::new(ods::OVal::Date("2021-01-01".into())), 1)], repeat: 2 },
                ods::ORow { cells: vec![(ods::OCell::empty(), 4)], repeat: 1 },
                ods::ORow { cells: vec![(ods::OCell::empty(), 1), (s("beta"), 1), (f("40"), 2)], repeat: 1 },
            ];
            let b = ods::OBook { sheets: vec![ods::OSheet { name: S[0].into(), rows: rows0, display: None }, ods::OSheet { name: S[1].into(), rows: vec![ods::ORow { cells: vec![(ods::OCell::empty(), 2), (s("two"), 1)], repeat: 1 }], display: Some(false) }, ods::OSheet { name: S[2].into(), rows: vec![ods::ORow { cells: vec![(f("3"), 1)], repeat: 1 }], display: None }],
                named: vec![("n1".into(), Some("$Data.$B$2".into()), None)], ..Default::default() };
            ods::write(&b, Method::Deflated)
        }
    }
}

/// Two worksheets whose names differ only by letter case, each with one distinguishing cell: (name, position, value).
const TWINS: [(&str, (u32, u32), f64); 2] = [("ab", (0, 0), 1.0), ("AB", (1, 1), 2.0)];
pub fn twins_workbook(fmt: &str) -> Vec<u8> {
    match fmt {
        "xlsx" => { let mut b = xlsx::XBook::default(); for (n, p, v) in TWINS { b.sheets.push(xlsx::XSheet::new(n, vec![xlsx::XCell::new(p.0, p.1, xlsx::XVal::Num(format!("{v}")))])); } xlsx::write(&b, &xlsx::XEnc::default()) }
        "xlsb" => { let b = xlsb::BBook { sheets: TWINS.iter().map(|(n, p, v)| xlsb::BSheet::new(n, vec![xlsb::BItem::Cell { row: p.0, col: p.1, style: 0, val: xlsb::BVal::Real(*v) }])).collect(), ..Default::default() }; xlsb::write(&b, Method::Deflated) }
        "xls" => { let b = biff8::BBook { sheets: TWINS.iter().map(|(n, p, v)| biff8::BSheet::new(n, vec![biff8::BCell::Number { r: p.0 as u16, c: p.1 as u16, xf: 0, v: *v }])).collect(), ..Default::default() }; let mut st = biff8::workbook_stream(&b); if st.len() < 4096 { st.resize(4096, 0); } cfb::simple(&[("Workbook", st)], &cfb::Layout::default()) }
        _ => {
            let b = ods::OBook { sheets: TWINS.iter().map(|(n, p, v)| {
                let mut rows = vec![]; if p.0 > 0 { rows.push(ods::ORow { cells: vec![(ods::OCell::empty(), 1)], repeat: p.0 }); }
                let mut cells = vec![]; if p.1 > 0 { cells.push((ods::OCell::empty(), p.1)); } cells.push((ods::OCell::new(ods::OVal::Float(format!("{v}"), "float")), 1));
                rows.push(ods::ORow { cells, repeat: 1 });
                ods::OSheet { name: n.to_string(), rows, display: None } }).collect(), ..Default::default() };
            ods::write(&b, Method::Deflated)
        }
    }
}

fn rd(r: Result<Range<Data>, String>) -> String { match r { Ok(r) => range_digest(&r), Err(e) => format!("Err({e})") } }
fn fd(r: Result<Range<String>, String>) -> String { match r { Ok(r) => format!("{:?}..{:?}|{:?}", r.start(), r.end(), r.used_cells().map(|(i, j, v)| (i, j, v.clone())).collect::<Vec<_>>()), Err(e) => format!("Err({e})") } }
fn es<E: std::fmt::Debug>(e: E) -> String { let s = format!("{e:?}"); s.chars().take(80).collect() }

/// calls available through the Reader trait (indices 0..N_COMMON) — same meaning for every reader incl. Sheets
const COMMON: [&str; 13] = ["range(Data)", "range(Second)", "range(Other)", "range_at(0)", "range_at(2)", "range_at(7)", "range(nope)", "worksheets()", "formula(Data)", "formula(Other)", "formula(nope)", "vba_project()", "metadata"];

fn common_call<R: Reader<Cursor<Vec<u8>>>>(wb: &mut R, c: usize) -> String where R::Error: std::fmt::Debug {
    match c {
        0..=2 => rd(wb.worksheet_range(S[c]).map_err(es)),
        3 => format!("{:?}", wb.worksheet_range_at(0).map(|r| rd(r.map_err(es)))),
        4 => format!("{:?}", wb.worksheet_range_at(2).map(|r| rd(r.map_err(es)))),
        5 => format!("{:?}", wb.worksheet_range_at(7).map(|r| rd(r.map_err(es)))),
        6 => rd(wb.worksheet_range("nope").map_err(es)),
        7 => { let mut v: Vec<(String, String)> = wb.worksheets().into_iter().map(|(n, r)| (n, range_digest(&r))).collect(); v.sort(); format!("{v:?}") }
        8 => fd(wb.worksheet_formula(S[0]).map_err(es)),
        9 => fd(wb.worksheet_formula(S[2]).map_err(es)),
        10 => fd(wb.worksheet_formula("nope").map_err(es)),
        11 => match wb.vba_project() { None => "None".into(), Some(Err(e)) => format!("Err({})", es(e)), Some(Ok(v)) => format!("{:?} {:?} {:?}", v.get_module_names(), v.get_module_names().iter().map(|n| v.get_module(n).ok()).collect::<Vec<_>>(), v.get_references().iter().map(|r| r.name.clone()).collect::<Vec<_>>()) },
        _ => format!("{:?} {:?} {:?}", wb.sheet_names(), wb.sheets_metadata(), wb.defined_names()),
    }
}

const OPTS: [&str; 3] = ["header(First)", "header(Row(1))", "header(Row(3))"];
fn set_opt<R: Reader<Cursor<Vec<u8>>>>(wb: &mut R, o: usize) { match o { 0 => wb.with_header_row(HeaderRow::FirstNonEmptyRow), 1 => wb.with_header_row(HeaderRow::Row(1)), _ => wb.with_header_row(HeaderRow::Row(3)) }; }

/// format-specific calls
fn extra_calls(fmt: &str) -> Vec<&'static str> {
    match fmt {
        "xlsx" => vec!["range_ref(Data)", "range_ref(nope)", "range_at_ref(2)", "merge_cells(Data)", "merge_cells_at(2)", "merge_cells(nope)", "merge_cells_at(7)", "load_merged_regions+by_sheet(Data)", "load_tables+table_by_name(T1)", "table_by_name_ref(T1)+names"],
        "xlsb" => vec!["range_ref(Data)", "range_ref(nope)", "range_at_ref(2)"],
        "xls" => vec!["merge_cells(Data)", "merge_cells_at(2)", "merge_cells(nope)", "merge_cells_at(7)"],
        _ => vec![],
    }
}

enum Wb { Xlsx(Xlsx<Cursor<Vec<u8>>>), Xlsb(Xlsb<Cursor<Vec<u8>>>), Xls(Xls<Cursor<Vec<u8>>>), Ods(Ods<Cursor<Vec<u8>>>), Auto(Sheets<Cursor<Vec<u8>>>) }

fn open(fmt: &str, bytes: &[u8], auto: bool) -> Result<Wb, String> {
    let c = Cursor::new(bytes.to_vec());
    if auto { return open_workbook_auto_from_rs(c).map(Wb::Auto).map_err(es); }
    match fmt { "xlsx" => Xlsx::new(c).map(Wb::Xlsx).map_err(es), "xlsb" => Xlsb::new(c).map(Wb::Xlsb).map_err(es), "xls" => Xls::new(c).map(Wb::Xls).map_err(es), _ => Ods::new(c).map(Wb::Ods).map_err(es) }
}

fn do_named_range(wb: &mut Wb, n: &str) -> String {
    match wb { Wb::Xlsx(w) => rd(w.worksheet_range(n).map_err(es)), Wb::Xlsb(w) => rd(w.worksheet_range(n).map_err(es)), Wb::Xls(w) => rd(w.worksheet_range(n).map_err(es)), Wb::Ods(w) => rd(w.worksheet_range(n).map_err(es)), Wb::Auto(w) => rd(w.worksheet_range(n).map_err(es)) }
}

/// call index space: 0..13 common, 13..16 options, 16.. extras
fn do_call(wb: &mut Wb, c: usize) -> String {
    let nc = COMMON.len();
    if c < nc {
        return match wb { Wb::Xlsx(w) => common_call(w, c), Wb::Xlsb(w) => common_call(w, c), Wb::Xls(w) => common_call(w, c), Wb::Ods(w) => common_call(w, c), Wb::Auto(w) => common_call(w, c) };
    }
    if c < nc + 3 {
        match wb { Wb::Xlsx(w) => set_opt(w, c - nc), Wb::Xlsb(w) => set_opt(w, c - nc), Wb::Xls(w) => set_opt(w, c - nc), Wb::Ods(w) => set_opt(w, c - nc), Wb::Auto(w) => set_opt(w, c - nc) };
        return "()".into();
    }
    let x = c - nc - 3;
    match wb {
        Wb::Xlsx(w) => match x {
            0 => rd(w.worksheet_range_ref(S[0]).map(|r| range_ref_to_data(&r)).map_err(es)),
            1 => rd(w.worksheet_range_ref("nope").map(|r| range_ref_to_data(&r)).map_err(es)),
            2 => format!("{:?}", w.worksheet_range_at_ref(2).map(|r| rd(r.map(|r| range_ref_to_data(&r)).map_err(es)))),
            3 => format!("{:?}", w.worksheet_merge_cells(S[0]).map(|r| r.map_err(es))),
            4 => format!("{:?}", w.worksheet_merge_cells_at(2).map(|r| r.map_err(es))),
            5 => format!("{:?}", w.worksheet_merge_cells("nope").map(|r| r.map_err(es))),
            6 => format!("{:?}", w.worksheet_merge_cells_at(7).map(|r| r.map_err(es))),
            7 => { let l = w.load_merged_regions().map_err(es); format!("{l:?} {:?} {:?}", w.merged_regions_by_sheet(S[0]), w.merged_regions_by_sheet(S[2])) }
            8 => { let l = w.load_tables().map_err(es); match w.table_by_name("T1") { Ok(t) => format!("{l:?} {} {} {:?} {}", t.name(), t.sheet_name(), t.columns(), range_digest(t.data())), Err(e) => format!("{l:?} Err({})", es(e)) } }
            _ => { let l = w.load_tables().map_err(es); let names = format!("{:?} {:?}", w.table_names(), w.table_names_in_sheet(S[0])); match w.table_by_name_ref("T1") { Ok(t) => format!("{l:?} {names} {:?} {}", t.columns(), range_digest(&range_ref_to_data(t.data()))), Err(e) => format!("{l:?} {names} Err({})", es(e)) } }
        },
        Wb::Xlsb(w) => match x {
            0 => rd(w.worksheet_range_ref(S[0]).map(|r| range_ref_to_data(&r)).map_err(es)),
            1 => rd(w.worksheet_range_ref("nope").map(|r| range_ref_to_data(&r)).map_err(es)),
            _ => format!("{:?}", w.worksheet_range_at_ref(2).map(|r| rd(r.map(|r| range_ref_to_data(&r)).map_err(es)))),
        },
        Wb::Xls(w) => match x { 0 => format!("{:?}", w.worksheet_merge_cells(S[0])), 1 => format!("{:?}", w.worksheet_merge_cells_at(2)), 2 => format!("{:?}", w.worksheet_merge_cells("nope")), _ => format!("{:?}", w.worksheet_merge_cells_at(7)) },
        _ => "n/a".into(),
    }
}

fn call_name(fmt: &str, c: usize) -> String {
    let nc = COMMON.len();
    if c < nc { COMMON[c].to_string() } else if c < nc + 3 { OPTS[c - nc].to_string() } else { extra_calls(fmt)[c - nc - 3].to_string() }
}


/// Path agreement over the repository's own fixture corpus (every workbook under <repo>/tests that opens): for every listed
/// sheet, range by name == range by index == the entry of worksheets(); an unknown name is an error; formula reads do not
/// report a listed worksheet as missing. The files are whatever the repository ships (a second, independent alphabet of
/// physical encodings written by real applications); files that do not open are skipped and counted.
/// sheet list and first sheet of a reader, for comparing two ways of opening the same bytes
fn brief<RS: std::io::Read + std::io::Seek, R: Reader<RS>>(w: &mut R) -> String where R::Error: std::fmt::Debug {
    format!("{:?} {:?}", w.sheet_names(), w.worksheet_range(S[0]).map(|r| range_digest(&r)).map_err(|e| format!("{e:?}").chars().take(40).collect::<String>()))
}

fn corpus_paths(rep: &Report) {
    let files = crate::props::corpus::fixtures(&crate::props::corpus::ALL);
    let opened = std::sync::atomic::AtomicU64::new(0);
    let sheets_checked = std::sync::atomic::AtomicU64::new(0);
    files.par_iter().for_each(|(fname, bytes)| {
        crate::engine::crumb::set_case(&format!("C07 fixture {fname}"));
        let replay = || Replay { json: json!({"fixture": fname}), files: vec![] };
        let r = guarded(|| -> Result<Vec<(String, String)>, String> {
            let mut wb = match open_workbook_auto_from_rs(Cursor::new(bytes.clone())) { Ok(w) => w, Err(_) => return Ok(vec![("skipped".into(), String::new())]) };
            let mut bad = vec![];
            let names = wb.sheet_names();
            let all = wb.worksheets();
            for (i, n) in names.iter().enumerate() {
                let by_name = wb.worksheet_range(n);
                let by_idx = wb.worksheet_range_at(i);
                let d = |r: &Result<Range<Data>, calamine::Error>| match r { Ok(r) => format!("Ok({})", range_digest(r)), Err(e) => format!("Err({})", format!("{e:?}").chars().take(60).collect::<String>()) };
                match &by_idx { Some(b) if d(b) == d(&by_name) => {}, other => bad.push(("range-vs-range_at".to_string(), format!("sheet #{i} {n:?}: by name {}, by index {}", d(&by_name), other.as_ref().map(d).unwrap_or("None".into())))) }
                let listed = all.iter().find(|(m, _)| m == n);
                match (&by_name, listed) {
                    (Ok(r), Some((_, w))) if range_digest(r) == range_digest(w) => {}
                    (Ok(_), Some(_)) => bad.push(("range-vs-worksheets".into(), format!("sheet {n:?}: worksheets() holds different cells than worksheet_range"))),
                    (Ok(_), None) => bad.push(("range-vs-worksheets".into(), format!("sheet {n:?} reads by name but worksheets() does not list it"))),
                    (Err(e), _) if format!("{e:?}").contains("NotFound") && format!("{e:?}").contains("Worksheet") => bad.push(("listed-sheet-not-found".into(), format!("sheet {n:?} is listed by sheet_names() but worksheet_range says {e:?}"))),
                    _ => {}
                }
                if let Err(e) = wb.worksheet_formula(n) { let t = format!("{e:?}"); if t.contains("Worksheet") && t.contains("NotFound") && by_name.is_ok() { bad.push(("formula-not-found".into(), format!("sheet {n:?}: worksheet_formula says {t}"))); } }
            }
            for (m, _) in &all { if !names.contains(m) { bad.push(("worksheets-unlisted-name".into(), format!("worksheets() yields {m:?}, which sheet_names() does not list"))); } }
            if wb.worksheet_range("\u{1}no such sheet\u{1}").is_ok() { bad.push(("unknown-sheet".into(), "an unknown sheet name read successfully".into())); }
            if wb.worksheet_range_at(names.len()).is_some() { bad.push(("range_at-out-of-range".into(), "worksheet_range_at(len) is not None".into())); }
            bad.push(("sheets".into(), names.len().to_string()));
            Ok(bad)
        });
        rep.eval(1);
        match r {
            Err(p) => { let site = normalise_site(p.rsplit(" @ ").next().unwrap_or("")); rep.fail(&format!("corpus/panic/{site}"), &format!("{fname}: panicked: {p}"), replay); }
            Ok(Err(e)) => rep.fail("corpus/machinery", &format!("{fname}: {e}"), replay),
            Ok(Ok(v)) => {
                if v.first().map(|x| x.0.as_str()) == Some("skipped") { return; }
                opened.fetch_add(1, std::sync::atomic::Ordering::Relaxed);
                for (k, d) in &v {
                    if k == "sheets" { sheets_checked.fetch_add(d.parse::<u64>().unwrap_or(0), std::sync::atomic::Ordering::Relaxed); continue; }
                    rep.fail(&format!("corpus/{k}"), &format!("{fname}: {d}"), replay);
                }
                rep.case(hash_of(&("corpus", &fname)), true, hash_of(&format!("{v:?}")));
            }
        }
        crate::engine::crumb::clear();
    });
    rep.extra("fixture_files_found", json!(files.len()));
    rep.extra("fixture_files_opened", json!(opened.load(std::sync::atomic::Ordering::Relaxed)));
    rep.extra("fixture_sheets_checked", json!(sheets_checked.load(std::sync::atomic::Ordering::Relaxed)));
}

pub fn check(rep: &Report) {
    corpus_paths(rep);
    let t = crate::thorough(&rep.tier);
    rep.rule("one feature-rich workbook per format (3 sheets incl. a chart sheet / hidden sheet, shared strings, 1-D and 2-D shared formulas, dates, two merged regions, a table, a VBA project, a defined name, a gap row); call alphabet = 13 Reader calls (ranges by name / index / unknown name, worksheets(), formulas, vba_project, metadata) + 3 header-row settings + the format's own calls (range_ref, merge cells, merged regions, tables); every call sequence of depth <= 3 (thorough 5) replayed on a fresh reader; oracle: each result equals the same call made first on a fresh reader under the option in force; plus access-path agreement under the default and under explicit header rows (also over every workbook under the repository's tests/ directory that opens) and auto-detected reader == own reader; a state = a distinct call prefix; non-trivial = sequence of length >= 2");
    rep.assume("results are compared through their Debug / digest rendering; error values by their first 80 characters");
    let depth = if t { 5 } else { 3 };
    let results: Vec<(u64, u64)> = FORMATS.par_iter().map(|fmt| {
        let bytes = workbook(fmt);
        let ncalls = COMMON.len() + 3 + extra_calls(fmt).len();
        let replay = |seq: &[usize], what: &str| Replay { json: json!({"format": fmt, "sequence": seq.iter().map(|c| call_name(fmt, *c)).collect::<Vec<_>>(), "what": what}), files: vec![(fmt.to_string(), bytes.clone())] };
        // baseline: (option, call) -> observation on a fresh reader
        let mut base: HashMap<(usize, usize), String> = HashMap::new();
        for o in 0..3 { for c in 0..ncalls {
            if (COMMON.len()..COMMON.len() + 3).contains(&c) { continue; }
            let r = guarded(|| { let mut wb = open(fmt, &bytes, false)?; do_call(&mut wb, COMMON.len() + o); Ok::<String, String>(do_call(&mut wb, c)) });
            match r {
                Ok(Ok(s)) => { base.insert((o, c), s); }
                Ok(Err(e)) => { rep.fail(&format!("{fmt}/open"), &format!("generated workbook rejected: {e}"), || replay(&[c], "open")); return (0, 0); }
                Err(p) => { let site = normalise_site(p.rsplit(" @ ").next().unwrap_or("")); rep.fail(&format!("{fmt}/panic/{}/{site}", call_name(fmt, c)), &format!("{} panicked on a fresh reader: {p}", call_name(fmt, c)), || replay(&[COMMON.len() + o, c], "panic")); base.insert((o, c), format!("PANIC {site}")); }
            }
        } }
        if *fmt == "xlsx" || *fmt == "xls" {
            let mut keys: Vec<&(usize, usize)> = base.keys().filter(|k| k.0 != 1).collect();
            keys.sort();
            rep.extra(&format!("{fmt}_baseline_observations"), json!(keys.iter().map(|k| format!("{} | {} => {}", OPTS[k.0], call_name(fmt, k.1), base[k].chars().take(160).collect::<String>())).collect::<Vec<_>>()));
        }
        // access-path agreement (default option), on a fresh reader, for every sheet
        let b = |c: usize| base.get(&(0, c)).cloned().unwrap_or_default();
        fn agree<R: Reader<Cursor<Vec<u8>>>>(wb: &mut R) -> Vec<(String, String)> where R::Error: std::fmt::Debug {
            let mut out = vec![];
            let names = wb.sheet_names();
            let ws = wb.worksheets();
            for (i, n) in names.iter().enumerate() {
                let a = rd(wb.worksheet_range(n).map_err(es));
                let at = match wb.worksheet_range_at(i) { Some(r) => rd(r.map_err(es)), None => "None".into() };
                if a != at { out.push(("range-vs-range_at".to_string(), format!("sheet #{i} {n}: range={a} range_at={at}"))); }
                match ws.iter().find(|(wn, _)| wn == n) {
                    Some((_, r)) => { if range_digest(r) != a { out.push(("range-vs-worksheets".to_string(), format!("sheet {n}: range={a} worksheets()={}", range_digest(r)))); } }
                    None => { if !a.starts_with("Err(") { out.push(("worksheets-misses-sheet".to_string(), format!("sheet {n} missing from worksheets()"))); } }
                }
            }
            if ws.iter().any(|(wn, _)| !names.contains(wn)) { out.push(("worksheets-extra-sheet".to_string(), format!("{:?}", ws.iter().map(|w| &w.0).collect::<Vec<_>>()))); }
            if wb.worksheet_range_at(names.len()).is_some() { out.push(("range_at-past-end".to_string(), "range_at(len) is Some".into())); }
            // the same under an explicit header row: the option governs every way of reading a sheet
            for row in [3u32, 0] {
                wb.with_header_row(HeaderRow::Row(row));
                for (i, n) in names.iter().enumerate() {
                    let a = rd(wb.worksheet_range(n).map_err(es));
                    let at = match wb.worksheet_range_at(i) { Some(r) => rd(r.map_err(es)), None => "None".into() };
                    if a != at { out.push((format!("range-vs-range_at/under-Row({row})"), format!("sheet #{i} {n}: range={a} range_at={at}"))); }
                }
                // (worksheets() is compared under the default option only: that is all the statement promises for it)
            }
            wb.with_header_row(HeaderRow::FirstNonEmptyRow);
            // near misses of every real name are unknown names: other letter case, surrounding blanks, one character more or less
            for n in &names {
                let mut vs = vec![n.to_uppercase(), n.to_lowercase(), format!("{n} "), format!(" {n}"), format!("{n}x"), n.chars().skip(1).collect::<String>(), n.chars().take(n.chars().count().saturating_sub(1)).collect::<String>()];
                vs.retain(|v| !names.contains(v));
                vs.dedup();
                for v in vs {
                    if let Ok(r) = wb.worksheet_range(&v) { out.push(("near-miss-name-accepted/range".to_string(), format!("range({v:?}) gave {} although the sheets are {names:?}", range_digest(&r)))); }
                    if wb.worksheet_formula(&v).is_ok() { out.push(("near-miss-name-accepted/formula".to_string(), format!("formula({v:?}) is Ok although the sheets are {names:?}"))); }
                }
            }
            out
        }
        fn agree_ref<R: ReaderRef<Cursor<Vec<u8>>>>(wb: &mut R) -> Vec<(String, String)> where R::Error: std::fmt::Debug {
            let mut out = vec![];
            let names = wb.sheet_names();
            for (i, n) in names.iter().enumerate() {
                let a = rd(wb.worksheet_range(n).map_err(es));
                let r = rd(wb.worksheet_range_ref(n).map(|r| range_ref_to_data(&r)).map_err(es));
                let at = match wb.worksheet_range_at_ref(i) { Some(r) => rd(r.map(|r| range_ref_to_data(&r)).map_err(es)), None => "None".into() };
                if a != r { out.push(("range-vs-range_ref".to_string(), format!("sheet {n}: range={a} range_ref={r}"))); }
                if a != at { out.push(("range-vs-range_at_ref".to_string(), format!("sheet #{i} {n}: range={a} range_at_ref={at}"))); }
            }
            for row in [3u32, 0] {
                wb.with_header_row(HeaderRow::Row(row));
                for (i, n) in names.iter().enumerate() {
                    let a = rd(wb.worksheet_range(n).map_err(es));
                    let r = rd(wb.worksheet_range_ref(n).map(|r| range_ref_to_data(&r)).map_err(es));
                    let at = match wb.worksheet_range_at_ref(i) { Some(r) => rd(r.map(|r| range_ref_to_data(&r)).map_err(es)), None => "None".into() };
                    if a != r { out.push((format!("range-vs-range_ref/under-Row({row})"), format!("sheet {n}: range={a} range_ref={r}"))); }
                    if a != at { out.push((format!("range-vs-range_at_ref/under-Row({row})"), format!("sheet #{i} {n}: range={a} range_at_ref={at}"))); }
                }
            }
            wb.with_header_row(HeaderRow::FirstNonEmptyRow);
            out
        }
        let pa = guarded(|| -> Result<Vec<(String, String)>, String> {
            Ok(match open(fmt, &bytes, false)? {
                Wb::Xlsx(mut w) => { let mut v = agree(&mut w); v.extend(agree_ref(&mut w)); v }
                Wb::Xlsb(mut w) => { let mut v = agree(&mut w); v.extend(agree_ref(&mut w)); v }
                Wb::Xls(mut w) => agree(&mut w),
                Wb::Ods(mut w) => agree(&mut w),
                Wb::Auto(mut w) => agree(&mut w),
            })
        });
        match pa {
            Ok(Ok(v)) => for (k, d) in v { rep.fail(&format!("{fmt}/paths/{k}"), &d, || replay(&[0, 3, 7], "paths")); },
            other => rep.fail(&format!("{fmt}/paths/failed"), &format!("{other:?}"), || replay(&[0, 3, 7], "paths")),
        }
        // sheets whose names differ only by letter case are different sheets on every access path
        {
            let tb = twins_workbook(fmt);
            fn twins<R: Reader<Cursor<Vec<u8>>>>(wb: &mut R) -> Vec<String> where R::Error: std::fmt::Debug {
                let mut out = vec![];
                let ws = wb.worksheets();
                for (i, (n, p, v)) in TWINS.iter().enumerate() {
                    let want = format!("{:?}..{:?} {:?}", Some(*p), Some(*p), Data::Float(*v));
                    let show = |r: Result<Range<Data>, String>| match r { Ok(r) => format!("{:?}..{:?} {:?}", r.start(), r.end(), r.get_value(*p).cloned().unwrap_or(Data::Empty)), Err(e) => format!("Err({e})") };
                    let a = show(wb.worksheet_range(n).map_err(es));
                    if a != want { out.push(format!("range({n:?}) = {a}, expected {want}")); }
                    let at = wb.worksheet_range_at(i).map(|r| show(r.map_err(es))).unwrap_or("None".into());
                    if at != want { out.push(format!("range_at({i}) = {at}, expected {want}")); }
                    match ws.iter().filter(|(wn, _)| wn == n).collect::<Vec<_>>().as_slice() { [(_, r)] => { let w = show(Ok(r.clone())); if w != want { out.push(format!("worksheets()[{n:?}] = {w}, expected {want}")); } } other => out.push(format!("worksheets() has {} entries named {n:?}", other.len())) }
                }
                out
            }
            let r = guarded(|| -> Result<Vec<String>, String> { Ok(match open(fmt, &tb, false)? { Wb::Xlsx(mut w) => twins(&mut w), Wb::Xlsb(mut w) => twins(&mut w), Wb::Xls(mut w) => twins(&mut w), Wb::Ods(mut w) => twins(&mut w), Wb::Auto(mut w) => twins(&mut w) }) });
            let ra = guarded(|| -> Result<Vec<String>, String> { Ok(match open(fmt, &tb, true)? { Wb::Auto(mut w) => twins(&mut w), _ => vec![] }) });
            rep.eval(2);
            let tw_replay = || Replay { json: json!({"format": fmt, "twins": format!("{TWINS:?}")}), files: vec![(fmt.to_string(), tb.clone())] };
            for (tag, x) in [("own", &r), ("auto", &ra)] { match x { Ok(Ok(v)) => for d in v { rep.fail(&format!("{fmt}/case-twin-sheets/{tag}"), d, tw_replay); }, other => rep.fail(&format!("{fmt}/case-twin-sheets/{tag}/failed"), &format!("{other:?}"), tw_replay) } }
        }
        if !b(6).starts_with("Err(") || !b(6).contains("NotFound") { rep.fail(&format!("{fmt}/unknown-sheet"), &format!("range(\"nope\") gave {}", b(6)), || replay(&[6], "unknown")); }
        if !b(10).starts_with("Err(") { rep.fail(&format!("{fmt}/unknown-sheet-formula"), &format!("formula(\"nope\") gave {}", b(10)), || replay(&[10], "unknown")); }
        if b(5) != "None" { rep.fail(&format!("{fmt}/range_at-out-of-range"), &format!("range_at(7) gave {}", b(5)), || replay(&[5], "index")); }
        // path-based detection: the workbook under every file extension of its own family and under extensions the table does not
        // know (content detection) opens as the same workbook
        {
            let dir = format!("{}/target/run/c07-ext-{}-{fmt}", crate::verif_root(), std::process::id());
            let _ = std::fs::create_dir_all(&dir);
            let exts: &[&str] = match *fmt { "xlsx" => &["xlsx", "xlsm", "xlam", "xltx", "xltm", "XLSX", "bin", ""], "xlsb" => &["xlsb", "XLSB", "bin", ""], "xls" => &["xls", "xla", "xlt", "XLS", "dat", ""], _ => &["ods", "ots", "ODS", "zip", ""] };
            for ext in exts {
                let path = if ext.is_empty() { format!("{dir}/book") } else { format!("{dir}/book.{ext}") };
                if std::fs::write(&path, &bytes).is_err() { continue; }
                let r = guarded(|| match calamine::open_workbook_auto(&path) { Ok(mut wb) => brief(&mut wb), Err(e) => format!("Err({})", format!("{e:?}").chars().take(80).collect::<String>()) });
                let own = guarded(|| { let mut wb = open(fmt, &bytes, false).unwrap(); match &mut wb { Wb::Xlsx(w) => brief(w), Wb::Xlsb(w) => brief(w), Wb::Xls(w) => brief(w), Wb::Ods(w) => brief(w), Wb::Auto(w) => brief(w) } });
                rep.eval(1);
                if r != own { rep.fail(&format!("{fmt}/open-by-path/{}", if ext.is_empty() { "no-extension" } else { ext }), &format!("open_workbook_auto(\"book.{ext}\") gave {r:?}, the {fmt} reader {own:?}"), || replay(&[12], "path")); }
                let _ = std::fs::remove_file(&path);
            }
            let _ = std::fs::remove_dir(&dir);
        }
        // auto-detected reader == own reader for every common call under every option
        for o in 0..3 { for c in 0..COMMON.len() {
            let r = guarded(|| { let mut wb = open(fmt, &bytes, true)?; do_call(&mut wb, COMMON.len() + o); Ok::<String, String>(do_call(&mut wb, c)) });
            let own = base.get(&(o, c)).cloned().unwrap_or_default();
            let same = match &r { Ok(Ok(s)) => { let strip = |x: &str| x.replace("Xlsx(", "").replace("Xlsb(", "").replace("Xls(", "").replace("Ods(", ""); s == &own || (s.starts_with("Err(") && own.starts_with("Err(") && strip(s).contains(&own[4..own.len().min(24)])) || (c == 11 && s.starts_with("Err") == own.starts_with("Err")) } _ => false };
            rep.eval(1);
            if !same { rep.fail(&format!("{fmt}/auto-vs-own/{}", COMMON[c]), &format!("auto-detected reader gave {r:?}, the {fmt} reader {own}"), || replay(&[COMMON.len() + o, c], "auto")); }
        } }
        // ... and after a change of the option: set o1, set o2, call (the wrapper has to forward every setting, also a return to the default)
        for o1 in 0..3 { for o2 in 0..3 { if o1 == o2 { continue; } for c in [0usize, 1, 3, 7] {
            let r = guarded(|| { let mut wb = open(fmt, &bytes, true)?; do_call(&mut wb, COMMON.len() + o1); do_call(&mut wb, COMMON.len() + o2); Ok::<String, String>(do_call(&mut wb, c)) });
            let own = base.get(&(o2, c)).cloned().unwrap_or_default();
            rep.eval(1);
            if !matches!(&r, Ok(Ok(s)) if *s == own) { rep.fail(&format!("{fmt}/auto-vs-own/after-option-change/{}", COMMON[c]), &format!("auto-detected reader after {} then {} gave {r:?}, the {fmt} reader under {} gives {own}", OPTS[o1], OPTS[o2], OPTS[o2]), || replay(&[COMMON.len() + o1, COMMON.len() + o2, c], "auto")); }
        } } }
        // all sequences up to `depth`
        let mut total = 0u64;
        let mut transitions = 0u64;
        let firsts: Vec<usize> = (0..ncalls).collect();
        let sub: Vec<(u64, u64)> = firsts.par_iter().map(|first| {
            let mut local = vec![];
            let mut n = 0u64; let mut tr = 0u64;
            let mut seq = vec![*first];
            fn rec(seq: &mut Vec<usize>, ncalls: usize, depth: usize, f: &mut dyn FnMut(&[usize])) { f(seq); if seq.len() == depth { return; } for c in 0..ncalls { seq.push(c); rec(seq, ncalls, depth, f); seq.pop(); } }
            rec(&mut seq, ncalls, depth, &mut |s: &[usize]| {
                crate::engine::crumb::set_case(&format!("C07 {fmt} sequence {:?}", s.iter().map(|c| call_name(fmt, *c)).collect::<Vec<_>>()));
                n += 1; tr += s.len() as u64;
                let r = guarded(|| {
                    let mut wb = open(fmt, &bytes, false).map_err(|e| (usize::MAX, e))?;
                    let mut opt = 0usize;
                    let mut last = 0u64;
                    for (i, c) in s.iter().enumerate() {
                        let got = do_call(&mut wb, *c);
                        last = hash_of(&(opt, &got));
                        if (COMMON.len()..COMMON.len() + 3).contains(c) { opt = c - COMMON.len(); continue; }
                        if i + 1 == s.len() || true {
                            let exp = base.get(&(opt, *c)).cloned().unwrap_or_default();
                            if got != exp { return Err((i, format!("call #{i} {} under {} returned {got}, but as a first call it returns {exp}", call_name(fmt, *c), OPTS[opt]))); }
                        }
                    }
                    Ok(last)
                });
                // the observed outcome of a sequence is what its last call returned (under the option then in force)
                let outcome = match &r {
                    Ok(Ok(h)) => *h,
                    Ok(Err((i, e))) => { let c = if *i == usize::MAX { "open".to_string() } else { call_name(fmt, s[*i]) }; let prev = if *i > 0 && *i != usize::MAX { call_name(fmt, s[*i - 1]) } else { "-".into() }; rep.fail(&format!("{fmt}/impure/{c}/after/{prev}"), e, || replay(s, e)); hash_of(e) }
                    Err(p) => { let site = normalise_site(p.rsplit(" @ ").next().unwrap_or("")); if !base.values().any(|v| v.contains(&site) && v.starts_with("PANIC")) { rep.fail(&format!("{fmt}/panic-in-sequence/{site}"), &format!("panicked: {p}"), || replay(s, p)); } hash_of(p) }
                };
                local.push((hash_of(&(fmt, s)), s.len() >= 2, outcome));
            });
            rep.cases_bulk(&local);
            crate::engine::crumb::clear();
            (n, tr)
        }).collect();
        for (a, b2) in sub { total += a; transitions += b2; }
        rep.eval(total);
        rep.extra(&format!("{fmt}_calls"), json!((0..ncalls).map(|c| call_name(fmt, c)).collect::<Vec<_>>()));
        rep.extra(&format!("{fmt}_sequences"), json!(total));
        (total, transitions)
    }).collect();
    let (st, tr) = results.iter().fold((0, 0), |a, b| (a.0 + b.0, a.1 + b.1));
    rep.add_states(st, tr);
    rep.trace(st);
    rep.extra("depth_completed", json!(depth));
    rep.sample(json!({"format": "xlsx", "sequence": ["header(Row(3))", "range(Data)", "header(First)", "load_tables+table_by_name(T1)"]}));
    rep.exhaustive(true);
}

pub fn replay(path: &str) -> i32 {
    let Ok(s) = std::fs::read_to_string(path) else { return 2 };
    let v: serde_json::Value = serde_json::from_str(&s).unwrap();
    if let Some(f) = v.get("fixture").and_then(|f| f.as_str()) { println!("fixture tests/{f} of the repository: {}\n(re-run the check to observe it again; the file is not copied)", v["what"]); return 0; }
    let fmt = v["format"].as_str().unwrap().to_string();
    if v.get("twins").is_some() {
        let tb = twins_workbook(&fmt);
        let r = guarded(|| { let mut wb = open(&fmt, &tb, false).unwrap(); TWINS.iter().map(|(n, _, _)| do_named_range(&mut wb, n)).collect::<Vec<_>>() });
        println!("workbook with sheets {TWINS:?}\nrecorded: {}\nobserved now: {r:?}", v["what"]);
        return 0;
    }
    let bytes = workbook(&fmt);
    let names: Vec<String> = v["sequence"].as_array().unwrap().iter().map(|x| x.as_str().unwrap().to_string()).collect();
    let ncalls = COMMON.len() + 3 + extra_calls(&fmt).len();
    let idx: Vec<usize> = names.iter().filter_map(|n| (0..ncalls).find(|c| call_name(&fmt, *c) == *n)).collect();
    let run = || guarded(|| { let mut wb = open(&fmt, &bytes, false).unwrap(); idx.iter().map(|c| do_call(&mut wb, *c)).collect::<Vec<_>>() });
    let (a, b) = (run(), run());
    if format!("{a:?}") != format!("{b:?}") { eprintln!("MACHINERY: replay not deterministic"); return 2; }
    println!("sequence {names:?}\nrecorded: {}\nobserved now: {a:?}", v["what"]);
    0
}
