//! C08 — the header-row option selects the first row without altering any cell (four formats,
//! every n, every short history of option changes).
use crate::engine::report::{Replay, Report};
use crate::engine::{guarded, hash_of, normalise_site};
use crate::gen::zipw::Method;
use crate::gen::{biff8, cfb, ods, xlsb, xlsx};
use crate::model::sheet::{bbox, Grid};
use calamine::{Data, HeaderRow, Ods, Range, Reader, Xls, Xlsb, Xlsx};
use rayon::prelude::*;
use serde_json::json;
use std::io::Cursor;

const FORMATS: [&str; 4] = ["xlsx", "xlsb", "xls", "ods"];

fn last_row(fmt: &str) -> u32 { if fmt == "xls" { 65_535 } else { 1_048_575 } }

/// patterns 0..32: every subset of rows 0..4; pattern 32: the last row of the format's grid and the one above it
fn model(fmt: &str, pattern: u32, off: u32) -> Grid {
    let mut g = Grid::new();
    if pattern == 33 {
        // a formula whose cached result is the blank string is a value (String("")): alone on the first and on the last used row
        g.insert((1, off), Data::String(String::new()));
        g.insert((2, off), Data::Float(3.0));
        g.insert((4, off + 1), Data::String(String::new()));
        return g;
    }
    if pattern == 32 {
        let l = last_row(fmt);
        g.insert((l - 1, off), Data::Float(7.0));
        g.insert((l, off), Data::Float(8.0));
        g.insert((l, off + 1), Data::String("last".into()));
        return g;
    }
    for r in 0..5u32 {
        if pattern & (1 << r) != 0 {
            g.insert((r, off), Data::Float(r as f64 + 1.0));
            if r % 2 == 1 { g.insert((r, off + 1), Data::String(format!("s{r}"))); }
        }
    }
    g
}

/// `stale`: the sheet's advisory dimension record (xlsx `<dimension>`, xlsb BrtWsDim) names only the first used row
fn build(fmt: &str, g: &Grid, variant: u8) -> Vec<u8> {
    // variants: 0 plain, 1 out-of-date advisory dimension record (xlsx, xlsb), 2 rows and cells without r attributes (xlsx)
    let stale = variant == 1;
    match fmt {
        "xlsx" => {
            let mut book = xlsx::XBook::default();
            let mut cells: Vec<xlsx::XCell> = g.iter().map(|((r, c), v)| xlsx::XCell::new(*r, *c, match v { Data::Float(f) => xlsx::XVal::Num(format!("{f}")), Data::String(s) => xlsx::XVal::InlineStr(xlsx::XText::plain(s)), _ => xlsx::XVal::None })).collect();
            // variant 3: formatted but value-less cells (and a formula without cached value) below the last value: they are not data
            if variant == 3 {
                let below = g.keys().map(|k| k.0 + 2).max().unwrap_or(2).min(1_048_570);
                book.styles = Some(xlsx::XStyles { num_fmts: vec![], cell_xfs: vec![0, 2], cell_style_xfs: vec![0], omit_general_numfmt: false });
                for (r, c) in [(below, 1u32), (below + 1, 0), (below + 1, 1)] { let mut x = xlsx::XCell::new(r, c, xlsx::XVal::None); x.style = Some(1); cells.push(x); }
                let mut f = xlsx::XCell::new(below + 2, 0, xlsx::XVal::None); f.formula = Some(xlsx::XFormula::Plain("A1".into())); cells.push(f);
            }
            book.sheets.push(xlsx::XSheet::new("S", cells));
            xlsx::write(&book, &xlsx::XEnc { dim: if stale { xlsx::DimMode::StaleRows } else { xlsx::DimMode::Exact }, row_r: if variant == 2 { xlsx::RMode::Implicit } else { xlsx::RMode::Explicit }, cell_r: if variant == 2 { xlsx::RMode::Implicit } else { xlsx::RMode::Explicit }, ..Default::default() })
        }
        "xlsb" => {
            let items = g.iter().map(|((r, c), v)| xlsb::BItem::Cell { row: *r, col: *c, style: 0, val: match v { Data::Float(f) => xlsb::BVal::Real(*f), Data::String(s) => xlsb::BVal::St(s.clone()), _ => xlsb::BVal::Blank } }).collect();
            let mut sh = xlsb::BSheet::new("S", items); sh.stale_dim = stale;
            xlsb::write(&xlsb::BBook { sheets: vec![sh], ..Default::default() }, Method::Deflated)
        }
        "xls" => {
            let cells = g.iter().map(|((r, c), v)| match v { Data::Float(f) => biff8::BCell::Number { r: *r as u16, c: *c as u16, xf: 0, v: *f }, Data::String(s) if s.is_empty() => biff8::BCell::Formula { r: *r as u16, c: *c as u16, xf: 0, res: biff8::FRes::EmptyStr, rgce: vec![0x17, 0, 0] }, Data::String(s) => biff8::BCell::Label { r: *r as u16, c: *c as u16, xf: 0, text: s.clone(), wide: false }, _ => biff8::BCell::Blank { r: *r as u16, c: *c as u16, xf: 0 } }).collect();
            let mut stream = biff8::workbook_stream(&biff8::BBook { sheets: vec![biff8::BSheet::new("S", cells)], ..Default::default() });
            if stream.len() < 4096 { stream.resize(4096, 0); }
            cfb::simple(&[("Workbook", stream)], &cfb::Layout::default())
        }
        _ => {
            let last = g.keys().map(|k| k.0).max();
            let mut rows = vec![];
            if let Some(last) = last {
                let first = g.keys().map(|k| k.0).min().unwrap_or(0);
                if first > 6 { rows.push(ods::ORow { cells: vec![(ods::OCell::empty(), 1)], repeat: first }); }
                for r in (if first > 6 { first } else { 0 })..=last {
                    let maxc = g.keys().filter(|k| k.0 == r).map(|k| k.1).max();
                    let mut cells = vec![];
                    if let Some(mc) = maxc {
                        for c in 0..=mc {
                            cells.push((ods::OCell::new(match g.get(&(r, c)) { Some(Data::Float(f)) => ods::OVal::Float(format!("{f}"), "float"), Some(Data::String(s)) => ods::OVal::StrContent(s.clone(), ods::SpaceMode::TextS, false), _ => ods::OVal::Empty }), 1));
                        }
                    }
                    rows.push(ods::ORow { cells, repeat: 1 });
                }
            }
            ods::write(&ods::OBook { sheets: vec![ods::OSheet { name: "S".into(), rows, display: None }], row_wrappers: if variant == 1 { 3 } else { 0 }, ..Default::default() }, Method::Deflated)
        }
    }
}

#[derive(Clone, Copy, Debug, PartialEq)]
enum Opt { First, Row(u32), /// read again without touching the option: the last option set stays in force
    Keep }

fn n_class(g: &Grid, n: u32) -> &'static str {
    match bbox(g) {
        None => "empty-sheet",
        Some((s, e)) => {
            if n < s.0 { "before-data" } else if n > e.0 { "after-data" } else if g.keys().any(|k| k.0 == n) { "on-data-row" } else { "in-gap" }
        }
    }
}

/// the statement, as a check of one read under `opt`
fn check_read(r: &Range<Data>, g: &Grid, opt: Opt) -> Result<(), (String, String)> {
    match opt {
        Opt::First | Opt::Keep => crate::model::sheet::check_range(r, g),
        Opt::Row(n) => {
            let has = g.keys().any(|k| k.0 >= n);
            if !has {
                if !r.is_empty() { return Err(("not-empty".into(), format!("no data at or below row {n} but range is {:?}..{:?}", r.start(), r.end()))); }
                return Ok(());
            }
            let (Some(s), Some(e)) = (r.start(), r.end()) else { return Err(("empty".into(), format!("data exists at or below row {n} but the range is empty"))) };
            if s.0 != n { return Err(("start-row".into(), format!("range starts at row {} instead of {n}", s.0))); }
            if r.cells().len() != r.height() * r.width() { return Err(("inner-size".into(), "not a full rectangle".into())); }
            // every non-empty model cell at or below n is inside and equal; everything else in the range is Empty
            for ((row, col), v) in g.iter().filter(|(k, _)| k.0 >= n) {
                match r.get_value((*row, *col)) { Some(x) if x == v => {}, other => return Err(("value".into(), format!("at ({row},{col}) got {other:?}, expected {v:?}"))) }
            }
            for row in s.0..=e.0 { for col in s.1..=e.1 {
                if !g.contains_key(&(row, col)) { if let Some(x) = r.get_value((row, col)) { if *x != Data::Empty { return Err(("spurious".into(), format!("at ({row},{col}) got {x:?}, expected Empty"))); } } }
            } }
            Ok(())
        }
    }
}

fn run_history<R: Reader<Cursor<Vec<u8>>>>(bytes: &[u8], hist: &[Opt]) -> Result<Vec<Range<Data>>, String> where R::Error: std::fmt::Debug {
    let mut wb = R::new(Cursor::new(bytes.to_vec())).map_err(|e| format!("open: {e:?}"))?;
    let mut out = vec![];
    for o in hist {
        match o { Opt::First => { wb.with_header_row(HeaderRow::FirstNonEmptyRow); } Opt::Row(n) => { wb.with_header_row(HeaderRow::Row(*n)); } Opt::Keep => {} }
        out.push(wb.worksheet_range("S").map_err(|e| format!("worksheet_range under {o:?}: {e:?}"))?);
    }
    Ok(out)
}

/// The header-row statement on the repository's own fixtures: the default read of a sheet is the model, every Row(n) read around
/// its first and last used row must start at n iff data exists at or below n and agree with the default read below n; after
/// returning to the default the first read comes back. Sheets larger than a million cells are skipped.
fn corpus_header_rows(rep: &Report) {
    let files = crate::props::corpus::fixtures(&crate::props::corpus::ALL);
    let sheets = std::sync::atomic::AtomicU64::new(0);
    files.par_iter().for_each(|(fname, bytes)| {
        crate::engine::crumb::set_case(&format!("C08 fixture {fname}"));
        let r = guarded(|| -> Vec<(String, String)> {
            let mut bad = vec![];
            let Ok(mut wb) = calamine::open_workbook_auto_from_rs(Cursor::new(bytes.clone())) else { return bad };
            for name in wb.sheet_names() {
                wb.with_header_row(HeaderRow::FirstNonEmptyRow);
                let Ok(def) = wb.worksheet_range(&name) else { continue };
                let (Some(s), Some(e)) = (def.start(), def.end()) else { continue };
                if (e.0 - s.0 + 1) as u64 * (e.1 - s.1 + 1) as u64 > 1_000_000 || e.0 > 100_000 { continue; }
                let mut g = Grid::new();
                for (i, j, v) in def.used_cells() { g.insert((s.0 + i as u32, s.1 + j as u32), v.clone()); }
                sheets.fetch_add(1, std::sync::atomic::Ordering::Relaxed);
                let mut ns = vec![0u32, s.0, s.0 + 1, e.0, e.0 + 1];
                if s.0 > 0 { ns.push(s.0 - 1); }
                ns.sort(); ns.dedup();
                for n in ns {
                    wb.with_header_row(HeaderRow::Row(n));
                    match wb.worksheet_range(&name) {
                        Err(err) => bad.push((format!("error/{}", n_class(&g, n)), format!("sheet {name:?} under Row({n}): {err:?}"))),
                        Ok(r) => if let Err((kind, detail)) = check_read(&r, &g, Opt::Row(n)) { bad.push((format!("{kind}/{}", n_class(&g, n)), format!("sheet {name:?} under Row({n}): {detail}"))); }
                    }
                    // a second read without touching the option: Row(n) stays in force
                    if let Ok(r) = wb.worksheet_range(&name) { if let Err((kind, detail)) = check_read(&r, &g, Opt::Row(n)) { bad.push((format!("{kind}/{}/read-again-without-setting", n_class(&g, n)), format!("sheet {name:?} under Row({n}), second read: {detail}"))); } }
                }
                wb.with_header_row(HeaderRow::FirstNonEmptyRow);
                match wb.worksheet_range(&name) { Ok(again) if crate::model::sheet::range_digest(&again) == crate::model::sheet::range_digest(&def) => {}, other => bad.push(("default-after-option-change".into(), format!("sheet {name:?}: the default read after Row(n) reads differs from the first default read ({:?})", other.map(|r| (r.start(), r.end()))))) }
            }
            bad
        });
        rep.eval(1);
        let replay = || Replay { json: json!({"fixture": fname}), files: vec![] };
        match r {
            Err(p) => { let site = normalise_site(p.rsplit(" @ ").next().unwrap_or("")); rep.fail(&format!("corpus/panic/{site}"), &format!("{fname}: panicked: {p}"), replay); }
            Ok(bad) => { for (k, d) in &bad { rep.fail(&format!("corpus/{k}"), &format!("{fname}: {d}"), replay); } rep.case(hash_of(&("corpus", fname)), true, hash_of(&format!("{bad:?}"))); }
        }
        crate::engine::crumb::clear();
    });
    rep.extra("fixture_files", json!(files.len()));
    rep.extra("fixture_sheets_checked", json!(sheets.load(std::sync::atomic::Ordering::Relaxed)));
}

pub fn check(rep: &Report) {
    corpus_header_rows(rep);
    let t = crate::thorough(&rep.tier);
    rep.rule("sheets = every subset of rows 0..4 non-empty (32 patterns) x column offset {0,2} x 4 formats (xlsx / xlsb also with a stale dimension record, xlsx with implicit references or with formatted value-less cells below the last value, ods with the first row in table:table-header-rows and the rest in table:table-rows); options = FirstNonEmptyRow and Row(n) for n in {0..6, 65535, 65536, 1048576, u32::MAX}; histories = every sequence of <= 3 steps over all 12 options and the step 'read again without setting the option' (the option last set stays in force), plus every sequence of 4 over {First, Row(1), Row(3), Row(65536), read again} (thorough: all sequences of 4 over all steps), a read after every step on one reader (xls: every option also handed over at construction through XlsOptions); plus, on every sheet of every fixture workbook of the repository that opens, Row(n) for n around its first and last used row against its own default read; non-trivial = history with a Row(n) option on a non-empty sheet; distinct by (format, sheet, history)");
    rep.assume("columns of the range under Row(n) are not constrained (the statement fixes only the first row and the cell values)");
    let ns: Vec<u32> = vec![0, 1, 2, 3, 4, 5, 6, 65535, 65536, 1_048_576, u32::MAX];
    let mut opts: Vec<Opt> = vec![Opt::First];
    opts.extend(ns.iter().map(|n| Opt::Row(*n)));
    let ctor_opts = opts.clone();
    opts.push(Opt::Keep);
    let small = [Opt::First, Opt::Row(1), Opt::Row(3), Opt::Row(65536), Opt::Keep];
    let mut hists: Vec<Vec<Opt>> = vec![];
    for a in &opts { hists.push(vec![*a]); }
    for a in &opts { for b in &opts { hists.push(vec![*a, *b]); } }
    for a in &opts { for b in &opts { for c in &opts { hists.push(vec![*a, *b, *c]); } } }
    if t { for a in &opts { for b in &opts { for c in &opts { for d in &opts { hists.push(vec![*a, *b, *c, *d]); } } } } }
    else { for a in small { for b in small { for c in small { for d in small { hists.push(vec![a, b, c, d]); } } } } }
    let mut jobs = vec![];
    for f in FORMATS { for p in 0..34u32 { if p == 33 && f != "xls" { continue; } for off in [0u32, 2] { for variant in [0u8, 1, 2, 3] { if (variant == 1 && f == "xls") || (variant >= 2 && f != "xlsx") { continue; } jobs.push((f, p, off, variant)); } } } }
    let nh = hists.len() as u64;
    jobs.par_iter().for_each(|(fmt, p, off, variant)| {
        let stale = &(*variant == 1);
        let g = model(fmt, *p, *off);
        let bytes = build(fmt, &g, *variant);
        // the far pattern is read under options around the last row only (a range starting near row 0 would hold a million rows)
        let l = last_row(fmt);
        let far_opts = [Opt::First, Opt::Row(l - 1), Opt::Row(l), Opt::Row(l + 1), Opt::Row(u32::MAX), Opt::Keep];
        let mut far_hists: Vec<Vec<Opt>> = far_opts.iter().map(|a| vec![*a]).collect();
        for a in far_opts { for b in far_opts { far_hists.push(vec![a, b]); } }
        let hists = if *p == 32 { &far_hists } else { &hists };
        let mut local = vec![];
        for h in hists.iter() {
            crate::engine::crumb::set_case(&format!("C08 format={fmt} rows={p:05b} col_offset={off} variant={variant} history={h:?}"));
            rep.eval(1);
            let res = guarded(|| match *fmt { "xlsx" => run_history::<Xlsx<_>>(&bytes, h), "xlsb" => run_history::<Xlsb<_>>(&bytes, h), "xls" => run_history::<Xls<_>>(&bytes, h), _ => run_history::<Ods<_>>(&bytes, h) });
            let replay = || Replay { json: json!({"format": fmt, "row_pattern": p, "col_offset": off, "variant": variant, "history": h.iter().map(|o| format!("{o:?}")).collect::<Vec<_>>()}), files: vec![(fmt.to_string(), bytes.clone())] };
            let last_n = h.iter().rev().find_map(|o| if let Opt::Row(n) = o { Some(*n) } else { None });
            let cls = last_n.map(|n| n_class(&g, n)).unwrap_or("default");
            let outcome = match &res {
                Err(pn) => { let site = normalise_site(pn.rsplit(" @ ").next().unwrap_or("")); rep.fail(&format!("{fmt}/panic/{cls}/{site}"), &format!("panicked: {pn} (history {h:?})"), replay); hash_of(pn) }
                Ok(Err(e)) => { rep.fail(&format!("{fmt}/error/{cls}"), &format!("{e} (history {h:?})"), replay); hash_of(e) }
                Ok(Ok(ranges)) => {
                    // the option in force at a step: the last one set (a fresh reader has the default)
                    let mut in_force = Opt::First;
                    for (i, (r, step)) in ranges.iter().zip(h.iter()).enumerate() {
                        let kept = matches!(step, Opt::Keep);
                        if !kept { in_force = *step; }
                        let o = &in_force;
                        if let Err((kind, detail)) = check_read(r, &g, *o) {
                            let c = match o { Opt::Row(n) => n_class(&g, *n), _ => "default" };
                            rep.fail(&format!("{fmt}/{kind}/{c}{}{}", if kept { "/read-again-without-setting" } else if i > 0 { "/after-option-change" } else { "" }, match *variant { 1 if *fmt == "ods" => "/rows-in-grouping-elements", 1 => "/stale-dimension", 2 => "/implicit-references", 3 => "/value-less-cells-below", _ => "" }), &format!("step {i} under {o:?}: {detail} (history {h:?})"), replay);
                            break;
                        }
                    }
                    hash_of(&ranges.iter().map(crate::model::sheet::range_digest).collect::<Vec<_>>())
                }
            };
            local.push((hash_of(&(fmt, p, off, variant, format!("{h:?}"))), *p != 0 && last_n.is_some(), outcome));
        }
        // xls: the option handed over at construction (XlsOptions::header_row) instead of through with_header_row
        if *fmt == "xls" && *p != 32 {
            for o in ctor_opts.iter() {
                rep.eval(1);
                let res = guarded(|| -> Result<Range<Data>, String> {
                    let mut xo = calamine::XlsOptions::default();
                    xo.header_row = match o { Opt::First | Opt::Keep => HeaderRow::FirstNonEmptyRow, Opt::Row(n) => HeaderRow::Row(*n) };
                    let mut wb = Xls::new_with_options(Cursor::new(bytes.clone()), xo).map_err(|e| format!("open: {e:?}"))?;
                    wb.worksheet_range("S").map_err(|e| format!("worksheet_range: {e:?}"))
                });
                let replay = || Replay { json: json!({"format": fmt, "row_pattern": p, "col_offset": off, "variant": variant, "history": [format!("{o:?}")], "option_given_at_construction": true}), files: vec![(fmt.to_string(), bytes.clone())] };
                let c = match o { Opt::Row(n) => n_class(&g, *n), _ => "default" };
                match &res {
                    Err(pn) => rep.fail(&format!("xls/panic/{c}/at-construction"), &format!("panicked: {pn} (XlsOptions.header_row = {o:?})"), replay),
                    Ok(Err(e)) => rep.fail(&format!("xls/error/{c}/at-construction"), &format!("{e} (XlsOptions.header_row = {o:?})"), replay),
                    Ok(Ok(r)) => if let Err((kind, detail)) = check_read(r, &g, *o) { rep.fail(&format!("xls/{kind}/{c}/option-at-construction"), &format!("XlsOptions.header_row = {o:?}: {detail}"), replay); },
                }
                local.push((hash_of(&(fmt, p, off, variant, format!("ctor {o:?}"))), *p != 0, hash_of(&format!("{:?}", res.as_ref().map(|r| r.as_ref().map(crate::model::sheet::range_digest).map_err(|e| e.clone())).map_err(|e| e.clone())))));
            }
        }
        rep.cases_bulk(&local);
        crate::engine::crumb::clear();
    });
    let n = jobs.len() as u64 * nh;
    rep.add_states(jobs.len() as u64 * (1 + opts.len() as u64), n);
    rep.trace(n);
    rep.extra("sheets", json!(jobs.len()));
    rep.extra("histories_per_sheet", json!(nh));
    rep.sample(json!({"format": "xls", "row_pattern": "0b01010", "col_offset": 2, "history": ["Row(3)", "FirstNonEmptyRow", "Row(65536)"]}));
    rep.exhaustive(true);
}

pub fn replay(path: &str) -> i32 {
    let Ok(s) = std::fs::read_to_string(path) else { return 2 };
    let v: serde_json::Value = serde_json::from_str(&s).unwrap();
    if let Some(f) = v.get("fixture").and_then(|f| f.as_str()) { println!("fixture tests/{f} of the repository: {}\n(re-run the check to observe it again; the file is not copied)", v["what"]); return 0; }
    let fmt = v["format"].as_str().unwrap().to_string();
    let g = model(&fmt, v["row_pattern"].as_u64().unwrap() as u32, v["col_offset"].as_u64().unwrap() as u32);
    let h: Vec<Opt> = v["history"].as_array().unwrap().iter().map(|o| { let s = o.as_str().unwrap(); if s.starts_with("Row(") { Opt::Row(s[4..s.len() - 1].parse().unwrap()) } else if s == "Keep" { Opt::Keep } else { Opt::First } }).collect();
    let bytes = build(&fmt, &g, v["variant"].as_u64().unwrap_or(0) as u8);
    let run = || guarded(|| match fmt.as_str() { "xlsx" => run_history::<Xlsx<_>>(&bytes, &h), "xlsb" => run_history::<Xlsb<_>>(&bytes, &h), "xls" => run_history::<Xls<_>>(&bytes, &h), _ => run_history::<Ods<_>>(&bytes, &h) }.map(|v| v.iter().map(crate::model::sheet::range_digest).collect::<Vec<_>>()));
    let (a, b) = (run(), run());
    if format!("{a:?}") != format!("{b:?}") { eprintln!("MACHINERY: replay not deterministic"); return 2; }
    println!("model cells: {g:?}\nhistory: {h:?}\nrecorded: {}\nobserved now: {a:?}", v["what"]);
    0
}
