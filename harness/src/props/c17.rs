//! C17 — merged regions and tables are reported with the geometry the file declares (xlsx, xls).
use crate::engine::choice::{explore_deviations, run_one, Chooser, Stats};
use crate::engine::report::{Replay, Report};
use crate::engine::{guarded, hash_of, normalise_site};
use crate::gen::xml::a1;
use crate::gen::{biff8, cfb, xlsx};
use crate::model::sheet::{range_ref_to_data, Grid};
use calamine::{Data, Dimensions, Range, Reader, Xls, Xlsx};
use rayon::prelude::*;
use serde_json::json;
use std::io::Cursor;
use std::sync::Mutex;

type Rg = ((u32, u32), (u32, u32));
const XLSX_REGIONS: [Rg; 5] = [((0, 0), (1, 1)), ((0, 25), (1, 26)), ((8, 51), (9, 52)), ((1_048_574, 16_382), (1_048_575, 16_383)), ((3, 2), (3, 700))];
const XLS_REGIONS: [Rg; 5] = [((0, 0), (1, 1)), ((0, 25), (1, 26)), ((8, 51), (9, 52)), ((65_534, 254), (65_535, 255)), ((3, 2), (3, 200))];

fn rf(r: Rg) -> String { format!("{}:{}", a1(r.0 .0, r.0 .1), a1(r.1 .0, r.1 .1)) }

#[derive(Clone, Debug)]
struct TSpec { name: String, sheet: usize, rg: Rg, header: u32, totals: u32, columns: Vec<String>, explicit_counts: bool, shown: u8, extras: bool }

struct Case { bytes: Vec<u8>, sheets: Vec<String>, merges: Vec<Vec<Rg>>, tables: Vec<TSpec>, grids: Vec<Grid>, desc: serde_json::Value }

fn sheet_values() -> Grid {
    // used range B2:D6 (rows 1..5, cols 1..3)
    let mut g = Grid::new();
    for r in 1..=5u32 { for c in 1..=3u32 { if (r + c) % 4 != 0 { g.insert((r, c), if c == 1 { Data::String(format!("r{r}")) } else { Data::Float((r * 10 + c) as f64) }); } } }
    g
}

fn build(ch: &mut Chooser, fmt: &str) -> Case {
    let nsheets = 1 + ch.choose("sheet-count", 2);
    let sheets: Vec<String> = (0..nsheets).map(|i| ["Zone data", "Second & last"][i].to_string()).collect(); // workbook order is not name order
    let regions = if fmt == "xlsx" { XLSX_REGIONS } else { XLS_REGIONS };
    let mut merges: Vec<Vec<Rg>> = vec![];
    for _ in 0..nsheets {
        let n = ch.choose("merge-count", 4);
        let mut v = vec![];
        let mut pool: Vec<Rg> = regions.to_vec();
        for _ in 0..n { let i = ch.choose("merge-region", pool.len()); v.push(pool.remove(i)); }
        merges.push(v);
    }
    // a sheet may declare merged regions and hold no value at all (merged, formatted, empty cells)
    let second_empty = nsheets == 2 && ch.flag("second-sheet-holds-no-values");
    let grids: Vec<Grid> = (0..nsheets).map(|i| if i == 0 { sheet_values() } else if second_empty { Grid::new() } else { let mut g = Grid::new(); g.insert((0, 0), Data::Float(5.0)); g.insert((2, 2), Data::String("z".into())); g }).collect();
    let mut tables = vec![];
    if fmt == "xlsx" {
        let nt = ch.choose("table-count", 3);
        for t in 0..nt {
            let sheet = if nsheets == 2 && !second_empty && ch.flag("table-on-second-sheet") { 1 } else { 0 };
            let placements: [Rg; 5] = [((1, 1), (4, 2)), ((0, 0), (3, 1)), ((4, 3), (8, 5)), ((20, 6), (23, 7)), ((1, 2), (5, 2))];
            let rg = placements[(ch.choose("table-placement", placements.len()) + t) % placements.len()];
            let header = 1 - ch.choose("table-header-rows", 2) as u32;
            let totals = ch.choose("table-totals-rows", 2) as u32;
            let ncols = (rg.1 .1 - rg.0 .1 + 1) as usize;
            let colnames = ["label", "a & b", "<amount>", "d"];
            tables.push(TSpec { name: ["Table1", "Sales_2"][t].to_string(), sheet, rg, header, totals, columns: colnames[..ncols].iter().map(|s| s.to_string()).collect(), explicit_counts: ch.flag("table-explicit-default-counts"), shown: ch.choose("table-totalsRowShown-attribute(absent,1,0)", 3) as u8, extras: ch.flag("table-part-with-autoFilter-calculated-column-style-info-and-x14-alt-text") });
        }
    }
    let desc = json!({"format": fmt, "sheets": sheets, "merges": merges.iter().map(|m| m.iter().map(|r| rf(*r)).collect::<Vec<_>>()).collect::<Vec<_>>(), "tables": tables.iter().map(|t| format!("{t:?}")).collect::<Vec<_>>()});
    let bytes = if fmt == "xlsx" {
        let mut b = xlsx::XBook::default();
        for (i, n) in sheets.iter().enumerate() {
            let cells = grids[i].iter().map(|((r, c), v)| xlsx::XCell::new(*r, *c, match v { Data::Float(f) => xlsx::XVal::Num(format!("{f}")), Data::String(s) => xlsx::XVal::InlineStr(xlsx::XText::plain(s)), _ => xlsx::XVal::None })).collect();
            let mut sh = xlsx::XSheet::new(n, cells);
            sh.merges = merges[i].iter().map(|r| rf(*r)).collect();
            for t in tables.iter().filter(|t| t.sheet == i) {
                // the name attribute is an internal identifier; displayName is the table's name in formulas and in the API
                sh.tables.push(xlsx::XTable { name: if t.extras { format!("Tbl_{}", t.sheet + 1) } else { t.name.clone() }, display_name: t.name.clone(), rf: rf(t.rg),
                    header_rows: if t.header == 0 { Some(0) } else if t.explicit_counts { Some(1) } else { None },
                    totals_rows: if t.totals == 1 { Some(1) } else if t.explicit_counts { Some(0) } else { None },
                    totals_row_shown: match t.shown { 0 => None, 1 => Some(true), _ => Some(false) }, columns: t.columns.clone(), extras: t.extras });
            }
            b.sheets.push(sh);
        }
        xlsx::write(&b, &xlsx::XEnc { lean_markup: ch.flag("xlsx.relationships-with-end-tags-and-optional-counts-omitted"), target: if ch.flag("xlsx.relationship-targets-absolute") { xlsx::TargetMode::AbsoluteXl } else { xlsx::TargetMode::Relative }, sheet_subfolder: ch.flag("xlsx.sheet-parts-in-a-sub-folder"), odd_table_part_names: !tables.is_empty() && ch.flag("xlsx.table-parts-outside-xl/tables"), prefix: ch.flag("xlsx.prefix"), indent: ch.flag("xlsx.indented"), comments: ch.flag("xlsx.comments-between-elements"), extras: ch.flag("xlsx.optional-neighbours-of-sheetData"), rels_target_first: ch.flag("xlsx.rels-target-before-type"), ..Default::default() })
    } else {
        let mut b = biff8::BBook::default();
        for (i, n) in sheets.iter().enumerate() {
            let cells = grids[i].iter().map(|((r, c), v)| match v { Data::Float(f) => biff8::BCell::Number { r: *r as u16, c: *c as u16, xf: 0, v: *f }, Data::String(s) => biff8::BCell::Label { r: *r as u16, c: *c as u16, xf: 0, text: s.clone(), wide: false }, _ => biff8::BCell::Blank { r: 0, c: 0, xf: 0 } }).collect();
            let mut sh = biff8::BSheet::new(n, cells);
            let m: Vec<(u16, u16, u16, u16)> = merges[i].iter().map(|r| (r.0 .0 as u16, r.1 .0 as u16, r.0 .1 as u16, r.1 .1 as u16)).collect();
            if !m.is_empty() {
                // one MERGECELLS record, or split after the first region
                if m.len() >= 2 && ch.flag("xls.split-mergecells-records") { sh.merges = vec![m[..1].to_vec(), m[1..].to_vec()]; } else { sh.merges = vec![m]; }
            }
            b.sheets.push(sh);
        }
        let mut stream = biff8::workbook_stream(&b);
        if stream.len() < 4096 { stream.resize(4096, 0); }
        cfb::simple(&[("Workbook", stream)], &cfb::Layout::default())
    };
    Case { bytes, sheets, merges, tables, grids, desc }
}

fn dims(r: Rg) -> Dimensions { Dimensions { start: r.0, end: r.1 } }

fn table_expect(t: &TSpec, g: &Grid) -> (Rg, Grid) {
    let s = (t.rg.0 .0 + t.header, t.rg.0 .1);
    let e = (t.rg.1 .0 - t.totals, t.rg.1 .1);
    let cells = g.iter().filter(|(k, _)| k.0 >= s.0 && k.0 <= e.0 && k.1 >= s.1 && k.1 <= e.1).map(|(k, v)| (*k, v.clone())).collect();
    ((s, e), cells)
}

fn check_table_range(r: &Range<Data>, rg: Rg, cells: &Grid) -> Result<(), String> {
    if r.start() != Some(rg.0) || r.end() != Some(rg.1) { return Err(format!("data range {:?}..{:?}, expected {:?}..{:?}", r.start(), r.end(), rg.0, rg.1)); }
    for row in rg.0 .0..=rg.1 .0 { for col in rg.0 .1..=rg.1 .1 {
        let exp = cells.get(&(row, col)).cloned().unwrap_or(Data::Empty);
        let got = r.get_value((row, col)).cloned().unwrap_or(Data::Empty);
        if exp != got { return Err(format!("data at ({row},{col}) = {got:?}, expected {exp:?}")); }
    } }
    Ok(())
}

/// returns the first discrepancy as (key, detail)
fn observe(fmt: &str, c: &Case) -> Result<Option<(String, String)>, String> {
    if fmt == "xls" {
        let wb: Xls<_> = Xls::new(Cursor::new(c.bytes.clone())).map_err(|e| format!("open: {e:?}"))?;
        for (i, n) in c.sheets.iter().enumerate() {
            let exp: Vec<Dimensions> = c.merges[i].iter().map(|r| dims(*r)).collect();
            let got = wb.worksheet_merge_cells(n);
            if got != Some(exp.clone()) { return Ok(Some(("xls/merge-cells".into(), format!("sheet {n}: {got:?}, expected {exp:?}")))); }
            if wb.worksheet_merge_cells_at(i) != Some(exp) { return Ok(Some(("xls/merge-cells-at".into(), format!("sheet #{i}")))); }
        }
        if wb.worksheet_merge_cells("nope").is_some() { return Ok(Some(("xls/merge-cells-unknown-sheet".into(), "unknown sheet has merge cells".into()))); }
        return Ok(None);
    }
    let mut wb: Xlsx<_> = Xlsx::new(Cursor::new(c.bytes.clone())).map_err(|e| format!("open: {e:?}"))?;
    for (i, n) in c.sheets.iter().enumerate() {
        let exp: Vec<Dimensions> = c.merges[i].iter().map(|r| dims(*r)).collect();
        match wb.worksheet_merge_cells(n) {
            Some(Ok(got)) if got == exp => {}
            other => return Ok(Some(("xlsx/worksheet_merge_cells".into(), format!("sheet {n}: {other:?}, expected {exp:?}")))),
        }
        match wb.worksheet_merge_cells_at(i) { Some(Ok(got)) if got == exp => {}, other => return Ok(Some(("xlsx/worksheet_merge_cells_at".into(), format!("sheet #{i}: {other:?}")))) }
    }
    wb.load_merged_regions().map_err(|e| format!("load_merged_regions: {e:?}"))?;
    let all: Vec<(String, Dimensions)> = wb.merged_regions().iter().map(|(n, _, d)| (n.clone(), *d)).collect();
    let exp_all: Vec<(String, Dimensions)> = c.sheets.iter().enumerate().flat_map(|(i, n)| c.merges[i].iter().map(move |r| (n.clone(), dims(*r)))).collect();
    if all != exp_all { return Ok(Some(("xlsx/merged_regions".into(), format!("{all:?}, expected {exp_all:?}")))); }
    for (i, n) in c.sheets.iter().enumerate() {
        let got: Vec<Dimensions> = wb.merged_regions_by_sheet(n).iter().map(|(_, _, d)| **d).collect();
        let exp: Vec<Dimensions> = c.merges[i].iter().map(|r| dims(*r)).collect();
        if got != exp { return Ok(Some(("xlsx/merged_regions_by_sheet".into(), format!("sheet {n}: {got:?}, expected {exp:?}")))); }
    }
    // tables
    wb.load_tables().map_err(|e| format!("load_tables: {e:?}"))?;
    let mut names: Vec<String> = wb.table_names().iter().map(|s| s.to_string()).collect();
    let mut exp_names: Vec<String> = c.tables.iter().map(|t| t.name.clone()).collect();
    names.sort(); exp_names.sort();
    if names != exp_names { return Ok(Some(("xlsx/table_names".into(), format!("{names:?}, expected {exp_names:?}")))); }
    for (i, n) in c.sheets.iter().enumerate() {
        let mut got: Vec<String> = wb.table_names_in_sheet(n).iter().map(|s| s.to_string()).collect();
        let mut exp: Vec<String> = c.tables.iter().filter(|t| t.sheet == i).map(|t| t.name.clone()).collect();
        got.sort(); exp.sort();
        if got != exp { return Ok(Some(("xlsx/table_names_in_sheet".into(), format!("sheet {n}: {got:?}, expected {exp:?}")))); }
    }
    for t in &c.tables {
        let (rg, cells) = table_expect(t, &c.grids[t.sheet]);
        let tag = format!("header={},totals={}", t.header, t.totals);
        let tb = wb.table_by_name(&t.name).map_err(|e| format!("table_by_name({}): {e:?}", t.name))?;
        if tb.name() != t.name || tb.sheet_name() != c.sheets[t.sheet] { return Ok(Some(("xlsx/table-identity".into(), format!("name {:?} sheet {:?}, expected {:?} on {:?}", tb.name(), tb.sheet_name(), t.name, c.sheets[t.sheet])))); }
        if tb.columns() != t.columns.as_slice() { return Ok(Some(("xlsx/table-columns".into(), format!("{:?}, expected {:?}", tb.columns(), t.columns)))); }
        if let Err(e) = check_table_range(tb.data(), rg, &cells) { return Ok(Some((format!("xlsx/table-data/{tag}"), format!("table {}: {e}", t.name)))); }
        let tr = wb.table_by_name_ref(&t.name).map_err(|e| format!("table_by_name_ref: {e:?}"))?;
        if let Err(e) = check_table_range(&range_ref_to_data(tr.data()), rg, &cells) { return Ok(Some((format!("xlsx/table-data-ref/{tag}"), format!("table {}: {e}", t.name)))); }
    }
    if wb.table_by_name("NoSuchTable").is_ok() { return Ok(Some(("xlsx/unknown-table".into(), "unknown table name resolved".into()))); }
    Ok(None)
}

fn run_case(rep: &Report, ch: &mut Chooser, fmt: &str, local: &mut Vec<(u64, bool, u64)>) {
    let c = build(ch, fmt);
    rep.eval(1);
    let replay = || Replay { json: json!({"format": fmt, "choices": ch.choices(), "case": c.desc}), files: vec![(fmt.to_string(), c.bytes.clone())] };
    let res = guarded(|| observe(fmt, &c));
    let outcome = match &res {
        Err(p) => { let site = normalise_site(p.rsplit(" @ ").next().unwrap_or("")); rep.fail(&format!("{fmt}/panic/{site}"), &format!("panicked: {p}"), replay); hash_of(p) }
        Ok(Err(e)) => { let cl: String = e.chars().take_while(|c| *c != '(' && *c != '{').collect(); rep.fail(&format!("{fmt}/error/{}", cl.trim()), e, replay); hash_of(e) }
        Ok(Ok(Some((key, detail)))) => { rep.fail(key, detail, replay); hash_of(detail) }
        Ok(Ok(None)) => hash_of(&format!("{}", c.desc)),
    };
    local.push((hash_of(&c.bytes), !ch.is_default(), outcome));
    if rep.want_sample() && ch.choices().iter().filter(|x| **x != 0).count() >= 3 { rep.sample(c.desc.clone()); }
}

/// The access paths of merged regions and tables agree on the repository's own fixtures: by name = by index = the loaded list
/// (xlsx), by name = by index (xls); a table read owned = read borrowed; every region lies inside the sheet.
fn corpus_paths(rep: &Report) {
    use calamine::{Reader, Xls, Xlsx};
    let files = crate::props::corpus::fixtures(&["xlsx", "xlsm", "xlam", "xls", "xla"]);
    let regions = std::sync::atomic::AtomicU64::new(0);
    let tables_seen = std::sync::atomic::AtomicU64::new(0);
    files.par_iter().for_each(|(fname, bytes)| {
        crate::engine::crumb::set_case(&format!("C17 fixture {fname}"));
        let is_xls = fname.ends_with(".xls") || fname.ends_with(".xla");
        let r = guarded(|| -> Vec<(String, String)> {
            let mut bad = vec![];
            if is_xls {
                let Ok(wb) = Xls::new(Cursor::new(bytes.clone())) else { return bad };
                for (i, n) in wb.sheet_names().iter().enumerate() {
                    let (a, b) = (wb.worksheet_merge_cells(n), wb.worksheet_merge_cells_at(i));
                    if a != b { bad.push(("xls/name-vs-index".into(), format!("sheet {n:?}: by name {a:?}, by index {b:?}"))); }
                    regions.fetch_add(a.map(|v| v.len()).unwrap_or(0) as u64, std::sync::atomic::Ordering::Relaxed);
                }
                return bad;
            }
            let Ok(mut wb) = Xlsx::new(Cursor::new(bytes.clone())) else { return bad };
            let names = wb.sheet_names();
            let loaded = wb.load_merged_regions().is_ok();
            for (i, n) in names.iter().enumerate() {
                let a = wb.worksheet_merge_cells(n).map(|r| r.map_err(|e| format!("{e:?}").chars().take(40).collect::<String>()));
                let b = wb.worksheet_merge_cells_at(i).map(|r| r.map_err(|e| format!("{e:?}").chars().take(40).collect::<String>()));
                if a != b { bad.push(("xlsx/name-vs-index".into(), format!("sheet {n:?}: by name {a:?}, by index {b:?}"))); }
                if let (true, Some(Ok(v))) = (loaded, &a) {
                    let l: Vec<Dimensions> = wb.merged_regions_by_sheet(n).iter().map(|(_, _, d)| **d).collect();
                    if &l != v { bad.push(("xlsx/loaded-vs-direct".into(), format!("sheet {n:?}: loaded {l:?}, direct {v:?}"))); }
                    for d in v { if d.start.0 > d.end.0 || d.start.1 > d.end.1 || d.end.0 > 1_048_575 || d.end.1 > 16_383 { bad.push(("xlsx/region-outside-sheet".into(), format!("sheet {n:?}: {d:?}"))); } }
                    regions.fetch_add(v.len() as u64, std::sync::atomic::Ordering::Relaxed);
                }
            }
            if wb.load_tables().is_ok() {
                let tn: Vec<String> = wb.table_names().iter().map(|s| s.to_string()).collect();
                for t in &tn {
                    tables_seen.fetch_add(1, std::sync::atomic::Ordering::Relaxed);
                    let own = wb.table_by_name(t).map(|t| (t.name().to_string(), t.sheet_name().to_string(), t.columns().to_vec(), crate::model::sheet::range_digest(t.data()))).map_err(|e| format!("{e:?}"));
                    let bor = wb.table_by_name_ref(t).map(|t| (t.name().to_string(), t.sheet_name().to_string(), t.columns().to_vec(), crate::model::sheet::range_digest(&crate::model::sheet::range_ref_to_data(t.data())))).map_err(|e| format!("{e:?}"));
                    if own != bor { bad.push(("xlsx/table-owned-vs-borrowed".into(), format!("table {t:?}: owned {own:?}, borrowed {bor:?}"))); }
                    if let Ok((_, sheet, _, _)) = &own { if !names.contains(sheet) { bad.push(("xlsx/table-sheet-unknown".into(), format!("table {t:?} names sheet {sheet:?}"))); } else if !wb.table_names_in_sheet(sheet).iter().any(|x| *x == t) { bad.push(("xlsx/table-not-listed-in-its-sheet".into(), format!("table {t:?} on {sheet:?}"))); } }
                }
            }
            bad
        });
        rep.eval(1);
        let replay = || Replay { json: json!({"fixture": fname}), files: vec![] };
        match r {
            Err(p) => { let site = normalise_site(p.rsplit(" @ ").next().unwrap_or("")); rep.fail(&format!("corpus/panic/{site}"), &format!("{fname}: panicked: {p}"), replay); }
            Ok(bad) => { for (k, d) in &bad { rep.fail(&format!("corpus/{k}"), &format!("{fname}: {d}"), replay); } rep.case(hash_of(&("corpus", fname)), true, hash_of(&format!("{bad:?}"))); }
        }
        crate::engine::crumb::clear();
    });
    rep.extra("fixture_files", json!(files.len()));
    rep.extra("fixture_merged_regions", json!(regions.load(std::sync::atomic::Ordering::Relaxed)));
    rep.extra("fixture_tables", json!(tables_seen.load(std::sync::atomic::Ordering::Relaxed)));
}

pub fn check(rep: &Report) {
    corpus_paths(rep);
    let t = crate::thorough(&rep.tier);
    rep.rule("workbooks = 1-2 sheets x 0-3 merged regions per sheet drawn in every order from {A1:B2, Z1:AA2, AZ9:BA10, the last two rows/columns of the sheet, a 1-row wide region} (xls: one or two MERGECELLS records) x (xlsx) 0-2 tables at 5 placements (inside / over the edge of / outside the used range, single column) x header rows 0/1 x totals rows 0/1 x explicit default counts x the other elements Excel writes into a table part (autoFilter, calculated column, tableStyleInfo, x14:table alt text in extLst) x table on either sheet x a second sheet without values x prefix; all choice vectors with <= d deviations; every API path of the statement; non-trivial = non-default; distinct by file bytes");
    rep.assume("tables always keep at least one data row; table name == displayName");
    let stats = Mutex::new(Stats::default());
    let dev = if t { 6 } else { 4 };
    ["xlsx", "xls"].par_iter().for_each(|fmt| {
        crate::engine::crumb::set_job(&format!("C17 format={fmt}"));
        let mut st = Stats::default();
        let mut local = vec![];
        explore_deviations(|ch| run_case(rep, ch, fmt, &mut local), dev, &mut st);
        rep.cases_bulk(&local);
        stats.lock().unwrap().merge(&st);
        crate::engine::crumb::clear();
    });
    let st = stats.lock().unwrap();
    rep.add_states(st.nodes, st.edges);
    rep.trace(st.executions);
    rep.extra("choice_labels_covered", st.label_summary());
    rep.extra("deviation_bound_completed", json!(dev));
    rep.exhaustive(true);
}

pub fn replay(path: &str) -> i32 {
    let Ok(s) = std::fs::read_to_string(path) else { return 2 };
    let v: serde_json::Value = serde_json::from_str(&s).unwrap();
    if let Some(c) = crate::props::corpus::replay_fixture(&v) { return c; }
    let choices: Vec<u32> = v["choices"].as_array().unwrap().iter().map(|x| x.as_u64().unwrap() as u32).collect();
    let fmt = v["format"].as_str().unwrap().to_string();
    let mut outs = vec![];
    for _ in 0..2 {
        let mut o = String::new();
        run_one(|ch| { let c = build(ch, &fmt); o = format!("{:?}", guarded(|| observe(&fmt, &c))); }, &choices);
        outs.push(o);
    }
    if outs[0] != outs[1] { eprintln!("MACHINERY: replay not deterministic"); return 2; }
    println!("case: {}\nrecorded: {}\nobserved now (first discrepancy): {}", v["case"], v["what"], outs[0]);
    0
}
