//! C11 — serial date-times convert to the right calendar date, time and duration.
//! Full enumeration of every whole day 0..=2_958_465 x both date systems x 16 fractions on the real
//! `ExcelDateTime` / `DataType` code, against an integer calendar and exact (i128) ms rounding.
use crate::engine::report::{Replay, Report};
use crate::engine::{guarded, hash_of};
use crate::model::dates::*;
use calamine::{Data, DataType, ExcelDateTime, ExcelDateTimeType};
use chrono::{Datelike, NaiveDateTime, Timelike};
use rayon::prelude::*;
use serde_json::json;

const MAX_DAY: u32 = 2_958_465;
/// Tie window (in ms) inside which either neighbouring millisecond is accepted: the implementation
/// forms (serial [+1 | +1462]) * 86_400_000 in f64, i.e. up to ~1.5 ulp of the product away from the
/// exact value. Never below 2^-9 ms.
fn tol(v: f64) -> f64 {
    let ms = (v.abs() + 1462.0) * 86_400_000.0;
    let ulp = 2f64.powi(ms.log2().floor() as i32 - 52);
    (3.0 * ulp).max(1.0 / 512.0)
}

fn fractions() -> Vec<f64> {
    let ms = 1.0 / 86_400_000.0;
    let mut v = vec![
        0.0, ms, 0.5 * ms, 0.49 * ms, 0.51 * ms, 0.25, 0.5, 0.75, 1.0 / 3.0, 0.999, 0.99999,
        1.0 - 0.51 * ms, 1.0 - 0.49 * ms, 1.0 - 1e-9, 0.18737500000000001, 0.7916666667,
    ];
    v.sort_by(|a, b| a.partial_cmp(b).unwrap());
    v
}

fn tuple_of(dt: &NaiveDateTime) -> (i64, u32, u32, u32, u32, u32, u32) {
    (dt.year() as i64, dt.month(), dt.day(), dt.hour(), dt.minute(), dt.second(), dt.nanosecond() / 1_000_000)
}

/// expected tuples for serial `v` in the given system, or None where the statement defines no date
/// (the fictitious day [60,61) of the 1900 system).
fn expected(v: f64, is1904: bool) -> Option<Vec<(i64, u32, u32, u32, u32, u32, u32)>> {
    let off_days: i128 = if is1904 {
        1462
    } else if v < 60.0 {
        1
    } else if v < 61.0 {
        return None;
    } else {
        0
    };
    let r = rounded_ms(v, tol(v))?;
    Some(r.into_iter().map(|ms| civil_of_ms(ms + off_days * MS_PER_DAY)).collect())
}

fn class_of(v: f64, is1904: bool) -> &'static str {
    if is1904 { "1904" } else if v < 60.0 { "1900/lt60" } else if v < 61.0 { "1900/[60,61)" } else { "1900/ge61" }
}

struct Fail { key: String, what: String, serial: f64, is1904: bool }

fn check_one(v: f64, is1904: bool, deep: bool, fails: &mut Vec<Fail>) -> Option<NaiveDateTime> {
    let x = ExcelDateTime::new(v, ExcelDateTimeType::DateTime, is1904);
    let got = match guarded(|| x.as_datetime()) {
        Ok(g) => g,
        Err(p) => {
            fails.push(Fail { key: format!("panic/{}", class_of(v, is1904)), what: format!("as_datetime panicked: {p}"), serial: v, is1904 });
            return None;
        }
    };
    if let Some(exp) = expected(v, is1904) {
        match got {
            None => fails.push(Fail { key: format!("none-in-span/{}", class_of(v, is1904)), what: "as_datetime returned None inside the supported span".into(), serial: v, is1904 }),
            Some(dt) => {
                let t = tuple_of(&dt);
                if !exp.contains(&t) {
                    let kind = if t.0 != exp[0].0 || t.1 != exp[0].1 || t.2 != exp[0].2 { "date" } else { "time" };
                    fails.push(Fail { key: format!("{kind}/{}", class_of(v, is1904)), what: format!("as_datetime={dt} expected one of {exp:?}"), serial: v, is1904 });
                }
            }
        }
    }
    if deep {
        // components and the DataType paths
        let d = Data::DateTime(x);
        let (a, b, c) = (d.as_datetime(), d.as_date(), d.as_time());
        if a != got || b != got.map(|g| g.date()) || c != got.map(|g| g.time()) {
            fails.push(Fail { key: "components/Data::DateTime".into(), what: format!("as_datetime={a:?} as_date={b:?} as_time={c:?} vs {got:?}"), serial: v, is1904 });
        }
        // duration = serial * 24h (rounded to ms)
        let td = ExcelDateTime::new(v, ExcelDateTimeType::TimeDelta, is1904);
        match guarded(|| (td.as_duration(), Data::DateTime(td).as_duration())) {
            Err(p) => fails.push(Fail { key: "panic/duration".into(), what: p, serial: v, is1904 }),
            Ok((du, du2)) => {
                let exp = rounded_ms(v, tol(v)).unwrap();
                let ok = du.map(|d| exp.contains(&(d.num_milliseconds() as i128))).unwrap_or(false);
                if !ok || du2 != du {
                    fails.push(Fail { key: "duration".into(), what: format!("as_duration={du:?}/{du2:?} expected ms in {exp:?}"), serial: v, is1904 });
                }
            }
        }
        if !is1904 {
            // plain Float / Int cells convert like 1900-system date-times
            let f = Data::Float(v);
            if f.as_datetime() != got || f.as_date() != got.map(|g| g.date()) || f.as_time() != got.map(|g| g.time()) {
                fails.push(Fail { key: "plain/Float".into(), what: format!("Data::Float as_datetime={:?} vs {got:?}", f.as_datetime()), serial: v, is1904 });
            }
            if v.fract() == 0.0 {
                let i = Data::Int(v as i64);
                if i.as_datetime() != got || i.as_date() != got.map(|g| g.date()) {
                    fails.push(Fail { key: "plain/Int".into(), what: format!("Data::Int as_datetime={:?} vs {got:?}", i.as_datetime()), serial: v, is1904 });
                }
            }
        }
    }
    got
}

pub fn check(rep: &Report) {
    rep.rule("every whole day 0..=2958465 x {1900,1904} x 16 fixed fractions (ms / half-ms / day boundaries) through ExcelDateTime::as_datetime, plus (every 97th day and all days < 1500) the as_date/as_time/as_duration and Data::Int/Float paths; plus special values (non-finite, huge, negative floats; integers up to i64::MIN / MAX, which must convert like the float of the same number); non-trivial = serial with a non-zero fraction or inside the first 1500 days");
    rep.assume("oracle: Hinnant civil_from_days + exact i128 millisecond rounding; within max(2^-9 ms, 3 ulp of the f64 millisecond product) of a rounding tie either neighbour is accepted (the statement says 'rounded to the millisecond', the f64 product cannot resolve closer)");
    rep.assume("serials in [60,61) of the 1900 system have no calendar date; only monotonicity is asserted there");
    let fr = fractions();
    let chunk = 4096u32;
    let nchunks = MAX_DAY / chunk + 1;
    for is1904 in [false, true] {
        // per chunk: (first dt, last dt, fails, count)
        let res: Vec<(Option<(f64, NaiveDateTime)>, Option<(f64, NaiveDateTime)>, Vec<Fail>, u64, u64)> = (0..nchunks)
            .into_par_iter()
            .map(|c| {
                let mut fails = vec![];
                let mut first = None;
                let mut last: Option<(f64, NaiveDateTime)> = None;
                let mut n = 0u64;
                let mut h = 0u64;
                for day in c * chunk..((c + 1) * chunk).min(MAX_DAY + 1) {
                    for f in &fr {
                        let v = day as f64 + *f;
                        if day == MAX_DAY && *f > 0.0 { continue; }
                        let deep = day < 1500 || day % 97 == 0;
                        let got = check_one(v, is1904, deep, &mut fails);
                        n += 1;
                        if let Some(g) = got {
                            h ^= hash_of(&(g.and_utc().timestamp_millis(), is1904)).rotate_left((day % 61) as u32);
                            if let Some((pv, pd)) = last {
                                if g < pd {
                                    // the one inherent break: the first serial of the fictitious day [60,61) maps before 59.x
                                    let across = !is1904 && pv < 60.0 && (60.0..61.0).contains(&v);
                                    let key = if across { "monotone/1900 across serial 60".to_string() } else { format!("monotone/{}", class_of(v, is1904)) };
                                    fails.push(Fail { key, what: format!("as_datetime({pv})={pd} > as_datetime({v})={g}"), serial: v, is1904 });
                                }
                            }
                            if first.is_none() { first = Some((v, g)); }
                            last = Some((v, g));
                        }
                    }
                }
                (first, last, fails, n, h)
            })
            .collect();
        let mut prev: Option<(f64, NaiveDateTime)> = None;
        let mut outcome = 0u64;
        for (first, last, fails, n, h) in res {
            rep.eval(n);
            outcome ^= h;
            if let (Some((pv, pd)), Some((v, g))) = (prev, first) {
                if g < pd {
                    rep.fail(&format!("monotone/{}", class_of(v, is1904)), &format!("as_datetime({pv})={pd} > as_datetime({v})={g}"), || Replay { json: json!({"serial": v, "is_1904": is1904}), files: vec![] });
                }
            }
            if last.is_some() { prev = last; }
            for f in fails {
                rep.fail(&f.key, &f.what, || Replay { json: json!({"serial": f.serial, "serial_bits": format!("{:016x}", f.serial.to_bits()), "is_1904": f.is1904}), files: vec![] });
            }
        }
        rep.case(hash_of(&("sweep", is1904)), true, outcome);
    }
    // landmark dates from the statement
    let lm: Vec<(f64, bool, (i64, u32, u32))> = vec![
        (1.0, false, (1900, 1, 1)), (59.0, false, (1900, 2, 28)), (61.0, false, (1900, 3, 1)), (62.0, false, (1900, 3, 2)),
        (0.0, true, (1904, 1, 1)), (1.0, true, (1904, 1, 2)), (25569.0, false, (1970, 1, 1)), (24107.0, true, (1970, 1, 1)),
        (2958465.0, false, (9999, 12, 31)), (2957003.0, true, (9999, 12, 31)),
    ];
    for (v, s, (y, m, d)) in lm {
        rep.eval(1);
        let got = guarded(|| ExcelDateTime::new(v, ExcelDateTimeType::DateTime, s).as_datetime()).ok().flatten();
        let ok = got.map(|g| (g.year() as i64, g.month(), g.day(), g.hour(), g.minute(), g.second()) == (y, m, d, 0, 0, 0)).unwrap_or(false);
        rep.case(hash_of(&(v.to_bits(), s)), true, hash_of(&format!("{got:?}")));
        if !ok {
            rep.fail(&format!("landmark/{v}/{}", if s { 1904 } else { 1900 }), &format!("serial {v} is1904={s} -> {got:?}, expected {y}-{m}-{d}"), || Replay { json: json!({"serial": v, "is_1904": s}), files: vec![] });
        }
    }
    // the last supported day carries times of day like any other day
    for (v, s1904, exp) in [(2958465.5f64, false, (9999i32, 12u32, 31u32, 12u32, 0u32, 0u32)), (2958465.999988426, false, (9999, 12, 31, 23, 59, 59)), (2957003.75, true, (9999, 12, 31, 18, 0, 0)), (2958464.25, false, (9999, 12, 30, 6, 0, 0))] {
        rep.eval(1);
        let got = guarded(|| ExcelDateTime::new(v, ExcelDateTimeType::DateTime, s1904).as_datetime()).ok().flatten();
        let ok = got.map(|g| (g.year(), g.month(), g.day(), g.hour(), g.minute(), g.second()) == exp).unwrap_or(false);
        rep.case(hash_of(&(v.to_bits(), s1904, "top")), true, hash_of(&format!("{got:?}")));
        if !ok { rep.fail(&format!("landmark/top-of-span/{}", if s1904 { 1904 } else { 1900 }), &format!("serial {v} is1904={s1904} -> {got:?}, expected {exp:?}"), || Replay { json: json!({"serial": v, "is_1904": s1904}), files: vec![] }); }
        let plain = guarded(|| Data::Float(v).as_datetime()).ok().flatten();
        if !s1904 && plain != got { rep.fail("landmark/top-of-span/plain-float", &format!("Data::Float({v}).as_datetime() = {plain:?}, ExcelDateTime gives {got:?}"), || Replay { json: json!({"serial": v, "is_1904": false}), files: vec![] }); }
    }
    // special values: must not panic; beyond the calendar => None; never a made-up date
    let specials: Vec<(&str, f64)> = vec![
        ("nan", f64::NAN), ("+inf", f64::INFINITY), ("-inf", f64::NEG_INFINITY), ("1e20", 1e20), ("-1e20", -1e20),
        ("1e300", 1e300), ("-1e300", -1e300), ("f64::MAX", f64::MAX), ("f64::MIN", f64::MIN), ("1e11", 1e11), ("-1e11", -1e11),
        ("-1", -1.0), ("-0.5", -0.5), ("-1000.25", -1000.25), ("-0.25", -0.25), ("-1.75", -1.75), ("-2.999", -2.999), ("2.5", 2.5), ("5e-324", 5e-324), ("-0", -0.0), ("3e6", 3.0e6), ("9e7", 9.0e7),
    ];
    for (name, v) in specials {
        for s in [false, true] {
            for ty in [ExcelDateTimeType::DateTime, ExcelDateTimeType::TimeDelta] {
                rep.eval(1);
                let x = ExcelDateTime::new(v, ty, s);
                let r = guarded(|| {
                    let d = Data::DateTime(x);
                    (x.as_datetime(), x.as_duration(), d.as_date(), d.as_time(), d.as_datetime(), d.as_duration(), Data::Float(v).as_datetime(), Data::Float(v).as_time())
                });
                rep.case(hash_of(&(v.to_bits(), s, format!("{ty:?}"))), true, hash_of(&format!("{r:?}")));
                match r {
                    Err(p) => rep.fail(&format!("special/{name}/panic"), &format!("conversion of {name} panicked: {p}"), || Replay { json: json!({"serial_bits": format!("{:016x}", v.to_bits()), "serial": name, "is_1904": s}), files: vec![] }),
                    Ok(t) => {
                        let beyond = !v.is_finite() || v.abs() >= 1e11;
                        if beyond && (t.0.is_some() || t.2.is_some() || t.4.is_some() || t.6.is_some()) {
                            rep.fail(&format!("special/{name}/wrong-date"), &format!("{name} converted to a date: {:?}", t.0.or(t.6)), || Replay { json: json!({"serial_bits": format!("{:016x}", v.to_bits()), "serial": name, "is_1904": s}), files: vec![] });
                        }
                        if !beyond {
                            // a duration is the serial times 24 h, for negative serials too
                            if let Some(du) = t.1 {
                                let exp_ms = v * 86_400_000.0;
                                if (du.num_milliseconds() as f64 - exp_ms).abs() > 1.0 { rep.fail(&format!("special/{name}/duration"), &format!("as_duration({name}) = {} ms, expected {exp_ms} ms", du.num_milliseconds()), || Replay { json: json!({"serial": v, "is_1904": s}), files: vec![] }); }
                                if t.5 != t.1 { rep.fail(&format!("special/{name}/duration-paths"), &format!("Data::as_duration {:?} vs ExcelDateTime::as_duration {:?}", t.5, t.1), || Replay { json: json!({"serial": v, "is_1904": s}), files: vec![] }); }
                            }
                            // in-calendar values: must agree with the exact computation where defined
                            if let (Some(dt), true) = (t.0, v >= 0.0) {
                                if let Some(exp) = expected(v, s) {
                                    if !exp.contains(&tuple_of(&dt)) {
                                        rep.fail(&format!("special/{name}/date"), &format!("{name} -> {dt}, expected {exp:?}"), || Replay { json: json!({"serial": v, "is_1904": s}), files: vec![] });
                                    }
                                }
                            }
                        }
                    }
                }
            }
        }
    }
    // plain Int cells are 1900-system serials like Float cells: every path gives what the Float of the same number gives, and
    // an integer beyond the calendar (also one whose low 32 bits alone would be a valid serial) is None, never a date
    for n in [0i64, 1, 59, 60, 61, 45_000, 2_958_465, 2_958_466, 2_147_483_647, 2_147_483_648, 4_294_967_296, 4_294_967_296 + 45_000, 1 << 40, i64::MAX, -1, -45_000, -2_147_483_648, -4_294_967_296 + 45_000, i64::MIN] {
        rep.eval(1);
        let r = guarded(|| (Data::Int(n).as_datetime(), Data::Int(n).as_date(), Data::Int(n).as_time(), Data::Float(n as f64).as_datetime(), Data::Float(n as f64).as_date(), Data::Float(n as f64).as_time(), calamine::DataRef::Int(n).as_datetime()));
        rep.case(hash_of(&("int", n)), true, hash_of(&format!("{r:?}")));
        let replay = || Replay { json: json!({"int_serial": n}), files: vec![] };
        match r {
            Err(p) => rep.fail("special/int/panic", &format!("conversion of Data::Int({n}) panicked: {p}"), replay),
            Ok(t) => {
                if !(0..=2_958_465).contains(&n) && (t.0.is_some() || t.1.is_some() || t.6.is_some()) && n.unsigned_abs() > 3_000_000 { rep.fail("special/int/wrong-date", &format!("Data::Int({n}) converted to a date: {:?}", t.0.or(t.6)), replay); }
                else if (t.0, t.1, t.2) != (t.3, t.4, t.5) || t.6 != t.3 { rep.fail("special/int/int-vs-float", &format!("Data::Int({n}) gives {:?} / {:?} / {:?} (DataRef: {:?}), Data::Float({n}.0) gives {:?} / {:?} / {:?}", t.0, t.1, t.2, t.6, t.3, t.4, t.5), replay); }
            }
        }
    }
    rep.add_states((MAX_DAY as u64 + 1) * 2 * fr.len() as u64, (MAX_DAY as u64 + 1) * 2 * fr.len() as u64);
    rep.trace(rep.evaluations.load(std::sync::atomic::Ordering::Relaxed));
    for (i, f) in fr.iter().enumerate() {
        rep.case(hash_of(&("fraction", i)), *f != 0.0, hash_of(&f.to_bits()));
    }
    let seed = Report::seed().unsigned_abs();
    for k in 0..3u64 {
        let day = ((seed * 7919 + k * 1_000_003 + 44197) % (MAX_DAY as u64)) as f64;
        let v = day + fr[(k as usize * 5 + 3) % fr.len()];
        rep.sample(json!({"serial": v, "1900": format!("{:?}", ExcelDateTime::new(v, ExcelDateTimeType::DateTime, false).as_datetime()), "1904": format!("{:?}", ExcelDateTime::new(v, ExcelDateTimeType::DateTime, true).as_datetime())}));
    }
    rep.exhaustive(true);
}

pub fn replay(path: &str) -> i32 {
    let Ok(s) = std::fs::read_to_string(path) else { return 2 };
    let v: serde_json::Value = serde_json::from_str(&s).unwrap();
    if let Some(n) = v.get("int_serial").and_then(|n| n.as_i64()) {
        let run = || guarded(|| format!("Int: {:?} / Float: {:?}", Data::Int(n).as_datetime(), Data::Float(n as f64).as_datetime()));
        let (a, b) = (run(), run());
        if a != b { eprintln!("MACHINERY: replay not deterministic"); return 2; }
        println!("Data::Int({n})\nrecorded: {}\nobserved now: {a:?}", v["what"]);
        return 0;
    }
    let serial = match v.get("serial_bits").and_then(|b| b.as_str()) {
        Some(b) => f64::from_bits(u64::from_str_radix(b, 16).unwrap()),
        None => v["serial"].as_f64().unwrap(),
    };
    let s1904 = v["is_1904"].as_bool().unwrap_or(false);
    let run = || guarded(|| format!("{:?}", ExcelDateTime::new(serial, ExcelDateTimeType::DateTime, s1904).as_datetime()));
    let (a, b) = (run(), run());
    if a != b { eprintln!("MACHINERY: replay not deterministic"); return 2; }
    println!("serial={serial} is_1904={s1904} as_datetime -> {a:?}; expected {:?}; recorded: {}", expected(serial, s1904), v["what"]);
    0
}
