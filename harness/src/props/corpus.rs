//! The repository's own fixture workbooks (<repo>/tests) as a second, independent alphabet of physical encodings written by
//! real applications. Only differential oracles are used on them (one access path against another, one option against the
//! default read): nothing is known about their intended content. Files that do not open are skipped.
use std::path::PathBuf;

pub fn repo_root() -> String { std::env::var("VERIF_REPO").unwrap_or_else(|_| "/repo".into()) }

/// (file name, bytes) of every non-empty workbook fixture, sorted by name
pub fn fixtures(exts: &[&str]) -> Vec<(String, Vec<u8>)> {
    let mut files: Vec<PathBuf> = match std::fs::read_dir(format!("{}/tests", repo_root())) {
        Ok(d) => d.filter_map(|e| e.ok().map(|e| e.path())).filter(|p| p.extension().and_then(|e| e.to_str()).map(|e| exts.contains(&e)).unwrap_or(false)).collect(),
        Err(_) => vec![],
    };
    files.sort();
    files.into_iter().filter_map(|p| { let b = std::fs::read(&p).ok()?; if b.is_empty() { None } else { Some((p.file_name()?.to_string_lossy().to_string(), b)) } }).collect()
}

pub const ALL: [&str; 7] = ["xls", "xlsx", "xlsm", "xlsb", "ods", "xla", "xlam"];

use crate::engine::report::{Replay, Report};
use crate::engine::{guarded, hash_of, normalise_site};
use crate::model::sheet::{range_digest, range_ref_to_data};
use calamine::{Reader, ReaderRef};
use rayon::prelude::*;
use serde_json::json;
use std::io::Cursor;

/// worksheet_range and worksheet_range_ref must tell the same story for every sheet of every fixture of the format (both Ok with
/// the same bounds and cells, or both an error). Sheets above a million cells are skipped.
pub fn range_vs_range_ref<R>(rep: &Report, exts: &[&str]) where R: Reader<Cursor<Vec<u8>>> + ReaderRef<Cursor<Vec<u8>>>, <R as Reader<Cursor<Vec<u8>>>>::Error: std::fmt::Debug {
    let files = fixtures(exts);
    let sheets = std::sync::atomic::AtomicU64::new(0);
    files.par_iter().for_each(|(fname, bytes)| {
        crate::engine::crumb::set_case(&format!("fixture {fname}"));
        let r = guarded(|| -> Vec<(String, String)> {
            let mut bad = vec![];
            let Ok(mut wb) = R::new(Cursor::new(bytes.clone())) else { return bad };
            for name in wb.sheet_names() {
                let a = wb.worksheet_range(&name);
                if let Ok(r) = &a { if r.get_size().0 as u64 * r.get_size().1 as u64 > 1_000_000 { continue; } }
                let b = wb.worksheet_range_ref(&name).map(|r| range_ref_to_data(&r));
                sheets.fetch_add(1, std::sync::atomic::Ordering::Relaxed);
                match (&a, &b) {
                    (Ok(x), Ok(y)) => if range_digest(x) != range_digest(y) { bad.push(("range-vs-range_ref".to_string(), format!("sheet {name:?}: worksheet_range {:?}..{:?} and worksheet_range_ref {:?}..{:?} differ in bounds or cells", x.start(), x.end(), y.start(), y.end()))); },
                    (Err(_), Err(_)) => {}
                    (x, y) => bad.push(("range-vs-range_ref/one-fails".to_string(), format!("sheet {name:?}: worksheet_range {} but worksheet_range_ref {}", if x.is_ok() { "reads" } else { "fails" }, if y.is_ok() { "reads" } else { "fails" }))),
                }
            }
            bad
        });
        rep.eval(1);
        let replay = || Replay { json: json!({"fixture": fname}), files: vec![] };
        match r {
            Err(p) => { let site = normalise_site(p.rsplit(" @ ").next().unwrap_or("")); rep.fail(&format!("corpus/panic/{site}"), &format!("{fname}: panicked: {p}"), replay); }
            Ok(bad) => { for (k, d) in &bad { rep.fail(&format!("corpus/{k}"), &format!("{fname}: {d}"), replay); } rep.case(hash_of(&("corpus", fname)), true, hash_of(&format!("{bad:?}"))); }
        }
        crate::engine::crumb::clear();
    });
    rep.extra("fixture_files", json!(files.len()));
    rep.extra("fixture_sheets_checked", json!(sheets.load(std::sync::atomic::Ordering::Relaxed)));
}

/// for `replay`: a violation on a fixture names the file only
pub fn replay_fixture(v: &serde_json::Value) -> Option<i32> {
    let f = v.get("fixture")?.as_str()?;
    println!("fixture tests/{f} of the repository: {}\n(re-run the check to observe it again; the file is not copied)", v["what"]);
    Some(0)
}
