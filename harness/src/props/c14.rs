//! C14 — formulas are reported at their cell with the A1 text the file encodes.
//! (a) every formula AST up to depth 2 over a fixed operand alphabet -> Ptg stream -> the real xls and
//!     xlsb token renderers (hook) vs the AST's own A1 renderer;
//! (b) a fixed sub-lattice of those ASTs through FORMULA / BrtFmla* records at cell positions, and
//!     stored-text formulas of xlsx and ods, end to end through worksheet_formula.
use crate::engine::report::{Replay, Report};
use crate::engine::{guarded, hash_of, normalise_site};
use crate::gen::zipw::Method;
use crate::gen::{biff8, cfb, ods, xlsb, xlsx};
use crate::model::formula::*;
use calamine::{Ods, Range, Reader, Xls, Xlsb, Xlsx};
use rayon::prelude::*;
use serde_json::json;
use std::io::Cursor;

const SHEETS: [&str; 3] = ["S1", "S2", "Data"];
/// XTI i designates sheet XTI_TAB[i] (deliberately not the identity)
const XTI_TAB: [usize; 3] = [2, 0, 1];
const NAMES: [&str; 2] = ["rate_1", "Total"];

fn xti_sheets() -> Vec<String> { XTI_TAB.iter().map(|i| SHEETS[*i].to_string()).collect() }
fn names() -> Vec<String> { NAMES.iter().map(|s| s.to_string()).collect() }

fn cref(row: u32, col: u32, ra: bool, ca: bool) -> CellRef { CellRef { row, col, row_abs: ra, col_abs: ca } }

/// all operands (L0) and the small representative pool (S0)
fn operands(biff12: bool) -> (Vec<Expr>, Vec<Expr>) {
    let cols: Vec<u32> = if biff12 { vec![0, 25, 26, 51, 701, 702, 16383] } else { vec![0, 25, 26, 51, 254, 255] };
    let rows: Vec<u32> = if biff12 { vec![0, 1_048_575] } else { vec![0, 65_535] };
    let mut l0 = vec![];
    for c in &cols { for r in &rows { for (ra, ca) in [(false, false), (true, true), (true, false), (false, true)] { l0.push(Expr::Ref(cref(*r, *c, ra, ca))); } } }
    let maxc = *cols.last().unwrap();
    let maxr = *rows.last().unwrap();
    for (ra, ca) in [(false, false), (true, true), (true, false), (false, true)] {
        l0.push(Expr::Area(cref(0, 0, ra, ca), cref(2, 1, ra, ca)));
        l0.push(Expr::Area(cref(4, 26, ra, ca), cref(maxr, maxc, !ra, ca)));
        l0.push(Expr::Area(cref(1, 25, ra, !ca), cref(1, 27, ra, ca)));
    }
    for x in 0..3 {
        l0.push(Expr::Ref3d(x, cref(0, 1, false, false)));
        l0.push(Expr::Ref3d(x, cref(9, 27, true, true)));
        l0.push(Expr::Ref3d(x, cref(maxr, maxc, true, false)));
        l0.push(Expr::Area3d(x, cref(0, 0, false, false), cref(2, 1, false, false)));
        l0.push(Expr::Area3d(x, cref(0, 26, true, true), cref(5, 30, true, false)));
    }
    l0.push(Expr::Name(0)); l0.push(Expr::Name(1));
    l0.push(Expr::RefErr); l0.push(Expr::AreaErr);
    for x in 0..3 { l0.push(Expr::RefErr3d(x)); l0.push(Expr::AreaErr3d(x)); }
    for i in [0u16, 7, 65535] { l0.push(Expr::Int(i)); }
    l0.push(Expr::Num(1.5)); l0.push(Expr::Num(0.25));
    for s in ["a", "x y", "", "A1", "caf\u{e9}", "\u{20ac}5", " pad ", "\u{20ac} "] { l0.push(Expr::Str(s.into())); }
    l0.push(Expr::Bool(true)); l0.push(Expr::Bool(false));
    for e in [0x00u8, 0x07, 0x0F, 0x17, 0x1D, 0x24, 0x2A, 0x2B] { l0.push(Expr::Err(e)); }
    let s0 = vec![
        Expr::Ref(cref(0, 0, false, false)), Expr::Ref(cref(0, 26, true, true)), Expr::Ref(cref(6, 3, true, false)), Expr::Ref(cref(6, 27, false, true)),
        Expr::Area(cref(0, 0, false, false), cref(2, 1, false, false)), Expr::Ref3d(1, cref(0, 1, false, false)), Expr::Area3d(0, cref(0, 0, true, true), cref(3, 2, true, true)),
        Expr::Name(0), Expr::Int(7), Expr::Num(1.5), Expr::Str("a b".into()), Expr::Bool(true), Expr::Err(0x07),
    ];
    (l0, s0)
}

fn b(e: &Expr) -> Box<Expr> { Box::new(e.clone()) }

/// depth-1 expressions over the pools
fn depth1(l0: &[Expr], s0: &[Expr]) -> Vec<Expr> {
    let mut v = vec![];
    for x in l0 { for op in ['+', '-', '%'] { v.push(Expr::Unary(op, b(x))); } v.push(Expr::Paren(b(x))); v.push(Expr::Func(24, "ABS", vec![x.clone()], false)); v.push(Expr::Func(4, "SUM", vec![x.clone()], true)); v.push(Expr::AttrSum(b(x))); }
    for (op, _) in BINOPS { for x in l0 { for y in s0 { v.push(Expr::Binary(op, b(x), b(y))); v.push(Expr::Binary(op, b(y), b(x))); } } }
    v.push(Expr::Func(19, "PI", vec![], false));
    // argument counts at the limits of the count field: 30 (the BIFF8 maximum), and for BIFF12 127, 128, 130 and 255
    for n in (if l0.iter().any(|e| matches!(e, Expr::Ref(r) if r.col > 255)) { vec![30usize, 127, 128, 130, 255] } else { vec![30usize] }) {
        v.push(Expr::Func(4, "SUM", (0..n).map(|k| Expr::Int(k as u16 + 1)).collect(), true));
        v.push(Expr::Func(0, "COUNT", (0..n).map(|k| if k % 2 == 0 { s0[0].clone() } else { Expr::Int(k as u16) }).collect(), true));
    }
    // CHOOSE with 1..4 choices (its PtgAttrChoose jump table has one entry more than choices), omitted arguments
    for x in s0 { for n in 1..=4usize {
        let mut args = vec![Expr::Int(1)]; for k in 0..n { args.push(if k % 2 == 0 { x.clone() } else { s0[(k * 5) % s0.len()].clone() }); }
        v.push(Expr::Func(100, "CHOOSE", args, true));
    } }
    for x in s0 { for y in s0.iter().step_by(2) {
        v.push(Expr::Func(1, "IF", vec![x.clone(), Expr::MissArg, y.clone()], true));
        v.push(Expr::Func(1, "IF", vec![x.clone(), y.clone(), Expr::MissArg], true));
        v.push(Expr::Func(4, "SUM", vec![Expr::MissArg, x.clone()], true));
    } }
    for x in s0 { for y in s0 {
        v.push(Expr::Func(27, "ROUND", vec![x.clone(), y.clone()], false));
        v.push(Expr::Func(4, "SUM", vec![x.clone(), y.clone()], true));
        v.push(Expr::Func(1, "IF", vec![x.clone(), y.clone()], true));
        v.push(Expr::Func(0, "COUNT", vec![x.clone(), y.clone()], true));
        for z in s0.iter().step_by(3) { v.push(Expr::Func(31, "MID", vec![x.clone(), y.clone(), z.clone()], false)); v.push(Expr::Func(1, "IF", vec![x.clone(), y.clone(), z.clone()], true)); v.push(Expr::Func(4, "SUM", vec![z.clone(), x.clone(), y.clone()], true)); }
    } }
    v
}

/// a spread of depth-1 expressions used as sub-expressions at depth 2
fn d1_sample(d1: &[Expr], n: usize) -> Vec<Expr> {
    let step = (d1.len() / n).max(1);
    let mut v: Vec<Expr> = d1.iter().step_by(step).take(n).cloned().collect();
    // whatever the spread picks, every constructor of depth 1 occurs once as a sub-expression (SUM stored as PtgAttrSum under an
    // operator, in parentheses and as a function argument; a zero-argument call; a variable-arity call)
    for want in [|e: &Expr| matches!(e, Expr::AttrSum(_)), |e: &Expr| matches!(e, Expr::Unary(..)), |e: &Expr| matches!(e, Expr::Paren(_)), |e: &Expr| matches!(e, Expr::Func(_, _, a, false) if a.is_empty()), |e: &Expr| matches!(e, Expr::Func(_, _, _, true)), |e: &Expr| matches!(e, Expr::Binary(..))] {
        if !v.iter().any(want) { if let Some(e) = d1.iter().find(|e| want(e)) { v.push(e.clone()); } }
    }
    v
}

fn depth2(d1s: &[Expr], s0: &[Expr]) -> Vec<Expr> {
    let mut v = vec![];
    for x in d1s { for op in ['+', '-', '%'] { v.push(Expr::Unary(op, b(x))); } v.push(Expr::Paren(b(x))); v.push(Expr::Func(24, "ABS", vec![x.clone()], false)); }
    for (op, _) in BINOPS { for x in d1s { for y in d1s { v.push(Expr::Binary(op, b(x), b(y))); } for y in s0 { v.push(Expr::Binary(op, b(y), b(x))); } } }
    for x in d1s { for y in d1s.iter().step_by(2) { v.push(Expr::Func(4, "SUM", vec![x.clone(), y.clone()], true)); v.push(Expr::Func(27, "ROUND", vec![x.clone(), y.clone()], false)); for z in s0.iter().step_by(4) { v.push(Expr::Func(1, "IF", vec![x.clone(), z.clone(), y.clone()], true)); } } }
    v
}

fn features(e: &Expr, out: &mut std::collections::BTreeSet<&'static str>) {
    match e {
        Expr::Ref(r) => { out.insert(if r.col >= 26 { "ref-col>=26" } else { "ref" }); if r.row_abs != r.col_abs { out.insert("mixed-abs"); } }
        Expr::Area(a, _) => { out.insert("area"); if a.row_abs != a.col_abs || !a.row_abs { out.insert("area-relative-part"); } }
        Expr::Ref3d(..) => { out.insert("ref3d"); }
        Expr::Area3d(..) => { out.insert("area3d"); }
        Expr::Name(_) => { out.insert("name"); }
        Expr::RefErr | Expr::AreaErr => { out.insert("ref-err"); }
        Expr::RefErr3d(_) | Expr::AreaErr3d(_) => { out.insert("ref-err-3d"); }
        Expr::MissArg => { out.insert("missing-arg"); }
        Expr::Str(s) => { out.insert(if s.chars().any(|c| c as u32 > 0xFF) { "str-16bit" } else { "str" }); }
        Expr::Unary(_, x) | Expr::Paren(x) | Expr::AttrSum(x) => features(x, out),
        Expr::Binary(_, a, c) => { features(a, out); features(c, out); }
        Expr::Func(t, _, args, _) => { if *t == 100 { out.insert("choose"); } for a in args { features(a, out); } }
        _ => {}
    }
}

fn node_kind(e: &Expr) -> &'static str {
    match e { Expr::Unary(..) => "unary", Expr::Binary(..) => "binary", Expr::Paren(_) => "paren", Expr::Func(_, _, _, true) => "funcvar", Expr::Func(..) => "func", Expr::AttrSum(_) => "attrsum", _ => "operand" }
}

/// serialisation modes: 0 value-class operands, 1 reference-class operands, 2 value class with the control tokens an
/// application writes (PtgAttrSemi first, jump tokens inside IF and CHOOSE)
const MODES: [u8; 3] = [0, 1, 2];
fn ptg_bytes(e: &Expr, biff12: bool, mode: u8) -> Vec<u8> {
    let mut rgce = vec![];
    match mode {
        0 => to_ptg(e, biff12, true, &mut rgce),
        1 => to_ptg(e, biff12, false, &mut rgce),
        _ => { rgce.extend(crate::model::formula::ATTR_SEMI); crate::model::formula::with_control(|| to_ptg(e, biff12, true, &mut rgce)); }
    }
    rgce
}
fn hook_render(e: &Expr, biff12: bool, mode: u8) -> Result<String, String> {
    let rgce = ptg_bytes(e, biff12, mode);
    let nm: Vec<(String, String)> = NAMES.iter().map(|n| (n.to_string(), "x".to_string())).collect();
    if biff12 {
        calamine::verif::xlsb::parse_formula(&rgce, &xti_sheets(), &nm)
    } else {
        let mut buf = (rgce.len() as u16).to_le_bytes().to_vec();
        buf.extend(rgce);
        let sheets: Vec<String> = SHEETS.iter().map(|s| s.to_string()).collect();
        let xtis: Vec<(u16, i16, i16)> = XTI_TAB.iter().map(|i| (0u16, *i as i16, *i as i16)).collect();
        calamine::verif::xls::parse_formula(&buf, &sheets, &nm, &xtis)
    }
}

fn sweep(rep: &Report, biff12: bool, thorough: bool) -> Vec<Expr> {
    let fmt = if biff12 { "xlsb" } else { "xls" };
    let (l0, s0) = operands(biff12);
    let d1 = depth1(&l0, &s0);
    let d1s = d1_sample(&d1, if thorough { 320 } else { 40 });
    let d2 = depth2(&d1s, &s0);
    let mut all: Vec<Expr> = l0.clone();
    all.extend(d1);
    all.extend(d2);
    if thorough {
        let d2s = d1_sample(&all[all.len() - 20000..], 70);
        let mut d3 = vec![];
        for (op, _) in BINOPS { for x in &d2s { for y in &d2s { d3.push(Expr::Binary(op, b(x), b(y))); } } }
        for x in &d2s { d3.push(Expr::Paren(b(x))); d3.push(Expr::Func(1, "IF", vec![x.clone(), s0[0].clone(), x.clone()], true)); }
        all.extend(d3);
    }
    let xs = xti_sheets();
    let nm = names();
    let ctx = Ctx { xti_sheet: &xs, names: &nm };
    let n = all.len() as u64;
    let outcomes: Vec<(u64, u64)> = all.par_chunks(2048).map(|chunk| {
        let mut local: Vec<(u64, bool, u64)> = Vec::with_capacity(chunk.len());
        crate::engine::crumb::set_case(&format!("C14 {fmt} token sweep chunk starting with {}", render(&chunk[0], &ctx)));
        let mut h = 0u64;
        let mut hi = 0u64;
        for e in chunk {
            let exp = render(e, &ctx);
            for vc in MODES {
                let got = guarded(|| hook_render(e, biff12, vc));
                hi ^= hash_of(&(&exp, vc));
                h ^= hash_of(&format!("{got:?}"));
                if vc == 0 { local.push((hash_of(&(fmt, &exp)), depth(e) >= 1, hash_of(&format!("{got:?}")))); }
                let bad = match &got { Ok(Ok(s)) => *s != exp, _ => true };
                if bad {
                    let mut f = std::collections::BTreeSet::new();
                    features(e, &mut f);
                    let what = match &got { Ok(Ok(s)) => format!("rendered {s:?}"), Ok(Err(er)) => format!("error {er}"), Err(p) => format!("panic {p}") };
                    let kind = match &got { Ok(Ok(_)) => "text", Ok(Err(_)) => "error", Err(_) => "panic" };
                    let site = if let Err(p) = &got { normalise_site(p.rsplit(" @ ").next().unwrap_or("")) } else { String::new() };
                    rep.fail(&format!("{fmt}/tokens/{kind}/{}/{}{}{site}", node_kind(e), f.into_iter().collect::<Vec<_>>().join("+"), if vc == 2 { "/control-tokens" } else { "" }), &format!("{what}, expected {exp:?}"), || {
                        let rgce = ptg_bytes(e, biff12, vc);
                        Replay { json: json!({"format": fmt, "rgce_hex": rgce.iter().map(|x| format!("{x:02x}")).collect::<String>(), "expected": exp}), files: vec![] }
                    });
                    break;
                }
            }
        }
        rep.cases_bulk(&local);
        crate::engine::crumb::clear();
        (hi, h)
    }).collect();
    rep.eval(3 * n);
    rep.add_states(n, 3 * n);
    rep.trace(3 * n);
    rep.extra(&format!("{fmt}_token_streams"), json!(3 * n));
    let mut depth_hist = [0u64; 5];
    for e in &all { depth_hist[depth(e).min(4)] += 1; }
    rep.extra(&format!("{fmt}_asts_by_depth"), json!(depth_hist));
    rep.case(hash_of(&(fmt, "sweep")), true, outcomes.iter().fold(0, |a, x| a ^ x.1));
    for (i, e) in all.iter().enumerate().step_by(all.len() / 3 + 1) { let _ = i; rep.sample(json!({"format": fmt, "a1": render(e, &ctx)})); }
    all
}

fn formula_digest(r: &Range<String>) -> Vec<((u32, u32), String)> {
    match r.start() { None => vec![], Some(s) => r.used_cells().map(|(i, j, v)| ((s.0 + i as u32, s.1 + j as u32), v.clone())).collect() }
}

fn check_formula_range(r: &Range<String>, exp: &[((u32, u32), String)]) -> Result<(), String> {
    let mut e: Vec<((u32, u32), String)> = exp.to_vec();
    e.sort();
    let got = formula_digest(r);
    if got != e { return Err(format!("formula cells {got:?}, expected {e:?}")); }
    if !e.is_empty() {
        let s = (e.iter().map(|x| x.0 .0).min().unwrap(), e.iter().map(|x| x.0 .1).min().unwrap());
        let en = (e.iter().map(|x| x.0 .0).max().unwrap(), e.iter().map(|x| x.0 .1).max().unwrap());
        if r.start() != Some(s) || r.end() != Some(en) { return Err(format!("formula range {:?}..{:?}, expected {s:?}..{en:?}", r.start(), r.end())); }
    }
    Ok(())
}

/// a name record without a formula (what a VBA macro or add-in function leaves in the name table)
fn macro_lbl(on: bool) -> Vec<(String, Vec<u8>)> { if on { vec![("Macro1".to_string(), vec![])] } else { vec![] } }

fn file_level(rep: &Report, fmt: &'static str, asts: &[Expr], thorough: bool) {
    let xs = xti_sheets();
    let nm = names();
    let ctx = Ctx { xti_sheet: &xs, names: &nm };
    // formulas of one file stay inside a small window (a Range is dense); windows at A1 and at the last cell
    let (maxr, maxc) = if fmt == "xls" { (65_535u32, 255u32) } else { (1_048_575, 16_383) };
    let rel: [(u32, u32); 3] = [(0, 0), (5, 3), (7, 4)];
    let stride = if thorough { 7 } else { 41 };
    let picks: Vec<&Expr> = asts.iter().step_by(stride).collect();
    // groups of up to 3 formulas, one per position (a non-formula cell is added elsewhere)
    let groups: Vec<&[&Expr]> = picks.chunks(3).collect();
    rep.extra(&format!("{fmt}_files"), json!(groups.len()));
    let indexed: Vec<(usize, &&[&Expr])> = groups.iter().enumerate().collect();
    indexed.par_iter().for_each(|(gi, g)| {
        let anchor = if gi % 2 == 0 { (0u32, 0u32) } else { (maxr - 7, maxc - 4) };
        let cells: Vec<((u32, u32), &Expr)> = g.iter().enumerate().map(|(i, e)| ((anchor.0 + rel[i].0, anchor.1 + rel[i].1), *e)).collect();
        let plain = (anchor.0 + 3, anchor.1 + 3);
        let exp: Vec<((u32, u32), String)> = cells.iter().map(|(p, e)| (*p, render(e, &ctx))).collect();
        crate::engine::crumb::set_case(&format!("C14 {fmt} file with formulas {:?}", exp));
        // workbook-level variations, cycled over the files: a formula-less name record (a macro / add-in placeholder) before the
        // names the formulas use (PtgName counts every name record), and (xls) sheet substreams stored in reverse of BoundSheet8 order
        let macro_first = (gi / 2) % 2 == 1;
        let reversed = (gi / 4) % 2 == 1;
        let nb = macro_first as u32;
        // every other block of 8 files carries the control tokens an application writes
        let fmode: u8 = if (gi / 8) % 2 == 1 { 2 } else { 0 };
        let bytes = match fmt {
            "xls" => {
                let mut bc: Vec<biff8::BCell> = vec![biff8::BCell::Number { r: plain.0 as u16, c: plain.1 as u16, xf: 0, v: 1.0 }];
                for (p, e) in &cells { let rgce = crate::model::formula::with_name_base(nb, || ptg_bytes(e, false, fmode)); bc.push(biff8::BCell::Formula { r: p.0 as u16, c: p.1 as u16, xf: 0, res: biff8::FRes::Num(1.0), rgce }); }
                bc.sort_by_key(|c| match c { biff8::BCell::Formula { r, c, .. } | biff8::BCell::Number { r, c, .. } => (*r, *c), _ => (0, 0) });
                let book = biff8::BBook { sheets: vec![biff8::BSheet::new(SHEETS[0], bc), biff8::BSheet::new(SHEETS[1], vec![]), biff8::BSheet::new(SHEETS[2], vec![])],
                    extern_sheets: Some(XTI_TAB.iter().map(|i| (*i as i16, *i as i16)).collect()),
                    names: macro_lbl(macro_first).into_iter().chain(NAMES.iter().map(|n| (n.to_string(), { let mut r = vec![0x3A, 0, 0]; r.extend(0u16.to_le_bytes()); r.extend(0u16.to_le_bytes()); r }))).collect(),
                    substream_order: if reversed { vec![2, 1, 0] } else { vec![] }, ..Default::default() };
                let mut stream = biff8::workbook_stream(&book);
                if stream.len() < 4096 { stream.resize(4096, 0); }
                cfb::simple(&[("Workbook", stream)], &cfb::Layout::default())
            }
            _ => {
                let mut items = vec![];
                let mut cs = cells.clone();
                let zero = Expr::Int(0);
                cs.push((plain, &zero));
                cs.sort_by_key(|c| c.0);
                for (p, e) in &cs {
                    if *p == plain { items.push(xlsb::BItem::Cell { row: plain.0, col: plain.1, style: 0, val: xlsb::BVal::Real(1.0) }); continue; }
                    let rgce = crate::model::formula::with_name_base(nb, || ptg_bytes(e, true, fmode));
                    let val = match p.0 % 4 { 0 => xlsb::BVal::FmlaNum(1.0, rgce), 1 => xlsb::BVal::FmlaStr("s".into(), rgce), 2 => xlsb::BVal::FmlaBool(true, rgce), _ => xlsb::BVal::FmlaErr(7, rgce) };
                    items.push(xlsb::BItem::Cell { row: p.0, col: p.1, style: 0, val });
                }
                // every fourth block of 16 files has a chart sheet as the second tab: tab indices in the XTI table count it
                let chart = (gi / 16) % 4 == 3;
                let mut sheets = vec![xlsb::BSheet::new(SHEETS[0], items), xlsb::BSheet::new(SHEETS[1], vec![]), xlsb::BSheet::new(SHEETS[2], vec![])];
                if chart { let mut c = xlsb::BSheet::new("Chart1", vec![]); c.dir = "chartsheets"; sheets.insert(1, c); }
                let tab = |i: usize| -> i32 { if chart && i >= 1 { i as i32 + 1 } else { i as i32 } };
                let book = xlsb::BBook { sheets,
                    extern_sheets: Some(XTI_TAB.iter().map(|i| (tab(*i), tab(*i))).collect()),
                    names: macro_lbl(macro_first).into_iter().chain(NAMES.iter().map(|n| (n.to_string(), { let mut r = vec![0x3A, 0, 0]; r.extend(0u32.to_le_bytes()); r.extend(0u16.to_le_bytes()); r }))).collect(), ..Default::default() };
                xlsb::write(&book, Method::Deflated)
            }
        };
        rep.eval(1);
        let res = guarded(|| -> Result<Range<String>, String> {
            if fmt == "xls" { let mut wb: Xls<_> = Xls::new(Cursor::new(bytes.clone())).map_err(|e| format!("open: {e:?}"))?; wb.worksheet_formula(SHEETS[0]).map_err(|e| format!("worksheet_formula: {e:?}")) }
            else { let mut wb: Xlsb<_> = Xlsb::new(Cursor::new(bytes.clone())).map_err(|e| format!("open: {e:?}"))?; wb.worksheet_formula(SHEETS[0]).map_err(|e| format!("worksheet_formula: {e:?}")) }
        });
        let replay = || Replay { json: json!({"format": fmt, "formulas": exp, "formula_less_name_first": macro_first, "control_tokens": fmode == 2, "substreams_reversed": reversed && fmt == "xls"}), files: vec![(fmt.to_string(), bytes.clone())] };
        let outcome = match &res {
            Err(p) => { let site = normalise_site(p.rsplit(" @ ").next().unwrap_or("")); rep.fail(&format!("{fmt}/file/panic/{site}"), &format!("panicked: {p}"), replay); hash_of(p) }
            Ok(Err(e)) => { let cl: String = e.chars().take_while(|c| *c != '(' && *c != '{').collect(); rep.fail(&format!("{fmt}/file/error/{}", cl.trim()), e, replay); hash_of(e) }
            Ok(Ok(r)) => { if let Err(e) = check_formula_range(r, &exp) { rep.fail(&format!("{fmt}/file/placement-or-text"), &e, replay); } hash_of(&formula_digest(r)) }
        };
        rep.case(hash_of(&bytes), true, outcome);
        crate::engine::crumb::clear();
    });
}

fn text_formats(rep: &Report) {
    // stored text (xlsx <f>, ods table:formula): XML-special characters, every position, non-formula cells ""
    let texts = ["A1+1", "IF(A1<B1,\"a&b\",1)", "SUM($A$1:B$2)&\"<x>\"", "'My Sheet'!A1*2", "\"caf\u{e9} \u{20ac} \u{1F600}\"&A1", "A1>=B1", "1<>2"];
    // (1,3) and (7,5) directly follow another position: with implicit references the second cell of such a pair has no r attribute
    let rel: [(u32, u32); 6] = [(0, 0), (1, 2), (1, 3), (5, 0), (7, 4), (7, 5)];
    for fmt in ["xlsx", "ods"] {
        for (ti, t) in texts.iter().enumerate() {
            for mask in 1..128u32 {
                // bit 6 selects the far window (xlsx only: an ods row materialises every column before it)
                let anchor = if mask & 64 != 0 { if fmt == "ods" { (40u32, 30u32) } else { (1_048_568, 16_379) } } else { (0, 0) };
                let positions: Vec<(u32, u32)> = rel.iter().map(|p| (anchor.0 + p.0, anchor.1 + p.1)).collect();
                if mask & 63 == 0 { continue; }
                let cells: Vec<((u32, u32), String)> = positions.iter().enumerate().filter(|(i, _)| mask & (1 << i) != 0).map(|(i, p)| (*p, if fmt == "ods" { format!("of:={}", texts[(ti + i) % texts.len()]) } else { texts[(ti + i) % texts.len()].to_string() })).collect();
                let _ = t;
                // constants without a formula: one in a row of its own, one in the first row to the right of every formula column
                let plains: [(u32, u32); 2] = [(anchor.0 + 3, anchor.1 + 3), (anchor.0, anchor.1 + 7)];
                crate::engine::crumb::set_case(&format!("C14 {fmt} stored-text formulas {cells:?}"));
                let bytes = if fmt == "xlsx" {
                    let mut xc: Vec<xlsx::XCell> = cells.iter().map(|(p, f)| { let mut c = xlsx::XCell::new(p.0, p.1, xlsx::XVal::Num("1".into())); c.formula = Some(xlsx::XFormula::Plain(f.clone())); c }).collect();
                    for pl in plains { xc.push(xlsx::XCell::new(pl.0, pl.1, xlsx::XVal::Num("5".into()))); }
                    xlsx::write(&xlsx::XBook { sheets: vec![xlsx::XSheet::new("S", xc)], ..Default::default() }, &xlsx::XEnc { prefix: mask % 2 == 0,
                        split_text_nodes: mask % 5 == 4, rows_never_r: mask % 7 == 3, extras: mask % 3 == 2, comments: mask % 11 == 5, cell_r: if (mask + ti as u32) % 3 == 1 { xlsx::RMode::Implicit } else { xlsx::RMode::Explicit }, row_r: if (mask + ti as u32) % 3 == 2 { xlsx::RMode::Implicit } else { xlsx::RMode::Explicit }, ..Default::default() })
                } else {
                    let maxr = cells.iter().map(|c| c.0 .0).max().unwrap().max(plains[0].0);
                    let mut rows = vec![];
                    let mut r = 0u32;
                    while r <= maxr {
                        let here: Vec<&((u32, u32), String)> = cells.iter().filter(|c| c.0 .0 == r).collect();
                        if here.is_empty() && !plains.iter().any(|pl| pl.0 == r) {
                            // run of empty rows up to the next used row
                            let next = cells.iter().map(|c| c.0 .0).chain(plains.iter().map(|pl| pl.0)).filter(|x| *x > r).min().unwrap_or(maxr + 1);
                            rows.push(ods::ORow { cells: vec![(ods::OCell::empty(), 1)], repeat: next - r });
                            r = next;
                            continue;
                        }
                        let mut rc = vec![];
                        let maxc = here.iter().map(|c| c.0 .1).chain(plains.iter().filter(|pl| pl.0 == r).map(|pl| pl.1)).max().unwrap_or(0);
                        let mut c = 0u32;
                        while c <= maxc {
                            if let Some(f) = here.iter().find(|x| x.0 .1 == c) { // every third formula cell has no cached value at all (legal: the value attributes are optional)
                                let mut oc = ods::OCell::new(if (mask + c) % 3 == 0 { ods::OVal::Empty } else { ods::OVal::Float("1".into(), "float") }); oc.formula = Some(f.1.clone()); rc.push((oc, 1)); c += 1; }
                            else if plains.contains(&(r, c)) { rc.push((ods::OCell::new(ods::OVal::Float("5".into(), "float")), 1)); c += 1; }
                            else { let next = here.iter().map(|x| x.0 .1).chain(plains.iter().filter(|pl| pl.0 == r).map(|pl| pl.1)).filter(|x| *x > c).min().unwrap_or(maxc + 1); rc.push((ods::OCell::empty(), next - c)); c = next; }
                        }
                        rows.push(ods::ORow { cells: rc, repeat: 1 });
                        r += 1;
                    }
                    ods::write(&ods::OBook { sheets: vec![ods::OSheet { name: "S".into(), rows, display: None }], indent: mask % 4 == 3, cell_attr_order: ((mask + ti as u32) % 3) as u8, row_wrappers: ((mask / 2 + ti as u32) % 4) as u8, ..Default::default() }, Method::Deflated)
                };
                rep.eval(1);
                let res = guarded(|| -> Result<Range<String>, String> {
                    if fmt == "xlsx" { let mut wb: Xlsx<_> = Xlsx::new(Cursor::new(bytes.clone())).map_err(|e| format!("open: {e:?}"))?; wb.worksheet_formula("S").map_err(|e| format!("worksheet_formula: {e:?}")) }
                    else { let mut wb: Ods<_> = Ods::new(Cursor::new(bytes.clone())).map_err(|e| format!("open: {e:?}"))?; wb.worksheet_formula("S").map_err(|e| format!("worksheet_formula: {e:?}")) }
                });
                let replay = || Replay { json: json!({"format": fmt, "formulas": cells}), files: vec![(fmt.to_string(), bytes.clone())] };
                let outcome = match &res {
                    Err(p) => { let site = normalise_site(p.rsplit(" @ ").next().unwrap_or("")); rep.fail(&format!("{fmt}/file/panic/{site}"), &format!("panicked: {p}"), replay); hash_of(p) }
                    Ok(Err(e)) => { rep.fail(&format!("{fmt}/file/error"), e, replay); hash_of(e) }
                    Ok(Ok(r)) => { if let Err(e) = check_formula_range(r, &cells) { rep.fail(&format!("{fmt}/file/placement-or-text"), &e, replay); } hash_of(&formula_digest(r)) }
                };
                rep.case(hash_of(&bytes), true, outcome);
                rep.add_states(1, 1);
                rep.trace(1);
                crate::engine::crumb::clear();
            }
        }
    }
}

pub fn check(rep: &Report) {
    let t = crate::thorough(&rep.tier);
    rep.rule("(a) every AST of depth <= 2 (thorough: + a depth-3 layer) over operands {cell refs: 4 absolute/relative combinations x columns A, Z, AA, AZ, ZZ, AAA, IV|XFD x first/last row; areas; 3-D refs/areas through a non-identity XTI table; 2 defined names; int, float, 8/16-bit strings, bool, 7 error literals} and operators {unary + - %, 15 binary, parentheses, fixed-arity PI/ABS/ROUND/MID, variable-arity SUM/IF/COUNT, PtgAttrSum}, serialised to BIFF8 and BIFF12 token streams in both operand classes and rendered by the real parsers (hook); (b) every 41st (thorough 7th) of them in FORMULA / BrtFmlaNum/String/Bool/Error records at three cells of a window anchored at A1 or at the last cell of the sheet, cycling over the files a formula-less name record before the used names and (xls) sheet substreams in reverse of BoundSheet8 order, plus stored-text formulas with XML-special characters in xlsx and ods at every subset of 6 positions (two of them directly after another, so that implicit and explicit references mix within a row); non-formula cells must be \"\"; non-trivial = depth >= 1");
    rep.assume("strings contain no double quote; sheet names need no quoting; numbers are exactly printable (1.5, 0.25)");
    let xls = sweep(rep, false, t);
    let xlsb_asts = sweep(rep, true, t);
    file_level(rep, "xls", &xls, t);
    file_level(rep, "xlsb", &xlsb_asts, t);
    text_formats(rep);
    rep.exhaustive(true);
}

pub fn replay(path: &str) -> i32 {
    let Ok(s) = std::fs::read_to_string(path) else { return 2 };
    let v: serde_json::Value = serde_json::from_str(&s).unwrap();
    if let Some(h) = v.get("rgce_hex").and_then(|h| h.as_str()) {
        let rgce: Vec<u8> = (0..h.len() / 2).map(|i| u8::from_str_radix(&h[2 * i..2 * i + 2], 16).unwrap()).collect();
        let nm: Vec<(String, String)> = NAMES.iter().map(|n| (n.to_string(), "x".to_string())).collect();
        let got = if v["format"] == "xlsb" { guarded(|| calamine::verif::xlsb::parse_formula(&rgce, &xti_sheets(), &nm)) } else {
            let mut buf = (rgce.len() as u16).to_le_bytes().to_vec(); buf.extend(&rgce);
            let sheets: Vec<String> = SHEETS.iter().map(|s| s.to_string()).collect();
            let xtis: Vec<(u16, i16, i16)> = XTI_TAB.iter().map(|i| (0u16, *i as i16, *i as i16)).collect();
            guarded(|| calamine::verif::xls::parse_formula(&buf, &sheets, &nm, &xtis))
        };
        println!("rgce {h}: rendered {got:?}, expected {}", v["expected"]);
        return 0;
    }
    let files = v["files"].as_array().unwrap();
    let bytes = std::fs::read(files[0].as_str().unwrap()).unwrap_or_default();
    let fmt = v["format"].as_str().unwrap();
    let d = match fmt { "xls" => crate::props::dump::dump_xls(&bytes), "xlsb" => crate::props::dump::dump_xlsb(&bytes), "xlsx" => crate::props::dump::dump_xlsx(&bytes), _ => crate::props::dump::dump_ods(&bytes) };
    println!("expected formulas: {}\nobserved now:\n{d}", v["formulas"]);
    0
}
