//! C15 — XLSX shared formulas expand to the translated formula of each member cell.
//! (a) master formulas = piece templates x reference alphabet, every offset in a window, through the
//!     real translator (hook) vs the reference shift; (b) E1: group shapes x master positions x
//!     templates end to end through worksheet_formula.
use crate::engine::choice::{explore_deviations, run_one, Chooser, Stats};
use crate::engine::report::{Replay, Report};
use crate::engine::{guarded, hash_of, normalise_site};
use crate::gen::xml::{a1, col_name};
use crate::gen::xlsx;
use calamine::{Range, Reader, Xlsx};
use rayon::prelude::*;
use serde_json::json;
use std::io::Cursor;
use std::sync::Mutex;

#[derive(Clone, Debug, PartialEq)]
enum Piece { Lit(&'static str), Ref { row: u32, col: u32, ra: bool, ca: bool } }

fn rtext(row: u32, col: u32, ra: bool, ca: bool) -> String { format!("{}{}{}{}", if ca { "$" } else { "" }, col_name(col), if ra { "$" } else { "" }, row + 1) }

fn render(t: &[Piece], off: (i64, i64)) -> String {
    t.iter().map(|p| match p {
        Piece::Lit(s) => s.to_string(),
        Piece::Ref { row, col, ra, ca } => rtext(if *ra { *row } else { (*row as i64 + off.0) as u32 }, if *ca { *col } else { (*col as i64 + off.1) as u32 }, *ra, *ca),
    }).collect()
}

fn refs() -> Vec<Piece> {
    let mut v = vec![];
    // rows 16383 / 19999: beyond the column limit 16384, inside the row limit
    for (row, col) in [(0u32, 0u32), (9, 25), (4, 26), (99, 701), (16_383, 2), (19_999, 1)] {
        for (ra, ca) in [(false, false), (true, true), (true, false), (false, true)] { v.push(Piece::Ref { row, col, ra, ca }); }
    }
    v
}

/// templates: `#` marks a reference slot
const TEMPLATES: [&str; 47] = [
    "#", "#+#", "SUM(#:#)", "LOG10(#)", "ATAN2(#,1)", "Sheet2!#", "'My Sheet'!#", "Q1!#", "'\u{dc}bersicht'!#", "\"A1\"&#",
    "\"say \"\"B2\"\" \"&#", "\"\u{e9}\u{20ac}\"&#", "1E5+#", "2.5E-3*#", "rate_1*#", "_A1+#", "IF(#>0,#,\"B2\")", "#%", "TRUE+#", "#:#",
    "'it''s A1'!#", "Data.A1+#", "A1B2C+#", "LOG10(#)+LOG(#,10)", "-#^2", "#&\" C3 \"&#", "DEC2HEX(#)", "'Q1 2024'!#:#", "1.5E+10/#", "SUM(Sheet2!#,#)",
    // defined names with non-ASCII letters whose ASCII tail alone would be a cell reference
    // the other quote character inside a quoted run; names that only look like references (column past XFD, row past
    // 1048576, row 0 or with a leading zero)
    "\"it's B2\"&#", "\" o'clock C3\"&#&\"x\"", "'5\" x B2'!#", "XFE1+#", "A1048577*#", "A0-#", "B01&#",
    "Gr\u{f6}\u{df}e1*#", "\u{426}\u{435}\u{43d}\u{430}Q3+#", "Ann\u{e9}e2-#",
    // error constants (\u{1} stands for their '#', which is the slot marker here): the ones without a closing ! or ? too
    "IF(#=0,\u{1}N/A,#)", "IFERROR(#/\u{1}DIV/0!,#)", "\u{1}REF!+#", "IF(ISNA(\u{1}N/A),\u{1}GETTING_DATA,#)",
    // a number in scientific notation as the last token; a string literal whose last character is a backslash
    "#*1E5", "#+2.5e3", "#&\"C:\\out\\\"&#",
];

fn instantiate(t: &'static str, picks: &[Piece]) -> Vec<Piece> {
    let mut v = vec![];
    let mut k = 0;
    for part in t.split_inclusive('#') {
        if let Some(stripped) = part.strip_suffix('#') {
            if !stripped.is_empty() { v.push(Piece::Lit(Box::leak(stripped.replace('\u{1}', "#").into_boxed_str()))); }
            v.push(picks[k % picks.len()].clone());
            k += 1;
        } else { v.push(Piece::Lit(Box::leak(part.replace('\u{1}', "#").into_boxed_str()))); }
    }
    v
}

fn slots(t: &str) -> usize { t.matches('#').count() }

fn masters() -> Vec<Vec<Piece>> {
    let rs = refs();
    let mut out = vec![];
    for t in TEMPLATES {
        let n = slots(t);
        for (i, a) in rs.iter().enumerate() {
            if n <= 1 { out.push(instantiate(t, &[a.clone()])); }
            else { for b in rs.iter().skip(i % 4).step_by(4) { out.push(instantiate(t, &[a.clone(), b.clone()])); } }
        }
    }
    out
}

/// masters that touch the last column / last row of the sheet (only moved by offsets that keep them inside)
fn masters_edge() -> Vec<Vec<Piece>> {
    let mut edge = vec![];
    for (row, col) in [(1u32, 16_383u32), (1_048_575, 0), (1_048_575, 16_383), (1_048_574, 16_382)] {
        for (ra, ca) in [(false, false), (true, true), (true, false), (false, true)] { edge.push(Piece::Ref { row, col, ra, ca }); }
    }
    let inner = [Piece::Ref { row: 1, col: 1, ra: false, ca: false }, Piece::Ref { row: 1, col: 0, ra: false, ca: true }];
    let mut out = vec![];
    for t in ["#", "COUNTA(#:#)", "#*#", "SUM(#:#)+#", "'My Sheet'!#"] {
        for e in &edge {
            if slots(t) == 1 { out.push(instantiate(t, &[e.clone()])); continue; }
            for i in &inner { out.push(instantiate(t, &[i.clone(), e.clone(), i.clone()])); out.push(instantiate(t, &[e.clone(), i.clone(), e.clone()])); }
        }
    }
    out
}

fn stays_inside(t: &[Piece], off: (i64, i64)) -> bool {
    t.iter().all(|p| match p { Piece::Ref { row, col, ra, ca } => (*ra || (0..=1_048_575).contains(&(*row as i64 + off.0))) && (*ca || (0..=16_383).contains(&(*col as i64 + off.1))), _ => true })
}

fn lit_class(t: &[Piece]) -> String {
    let lits: String = t.iter().filter_map(|p| if let Piece::Lit(s) = p { Some(*s) } else { None }).collect::<Vec<_>>().join("#");
    let mixed = t.iter().any(|p| matches!(p, Piece::Ref { ra, ca, .. } if ra != ca));
    let abs = t.iter().any(|p| matches!(p, Piece::Ref { ra: true, ca: true, .. }));
    format!("{}{}{}", lits.chars().take(24).collect::<String>(), if mixed { "/mixed-ref" } else { "" }, if abs { "/abs-ref" } else { "" })
}

fn hook_sweep(rep: &Report, thorough: bool) {
    let mut ms = masters();
    ms.extend(masters_edge());
    let offs: Vec<(i64, i64)> = if thorough { (0..=6).flat_map(|r| (0..=6).map(move |c| (r, c))).chain([(100, 0), (0, 30), (1000, 700)]).collect() } else { vec![(0, 0), (1, 0), (0, 1), (1, 1), (2, 3), (25, 0), (0, 26)] };
    let n = (ms.len() * offs.len()) as u64;
    ms.par_chunks(64).for_each(|chunk| {
        let mut local = vec![];
        for m in chunk {
            let master = render(m, (0, 0));
            crate::engine::crumb::set_case(&format!("C15 translator master={master:?}"));
            for off in &offs {
                if !stays_inside(m, *off) { continue; }
                let exp = render(m, *off);
                let got = guarded(|| calamine::verif::xlsx::replace_cell_names(&master, *off));
                local.push((hash_of(&(&master, off)), *off != (0, 0), hash_of(&format!("{got:?}"))));
                let bad = !matches!(&got, Ok(Ok(s)) if *s == exp);
                if bad {
                    let kind = match &got { Ok(Ok(_)) => "text", Ok(Err(_)) => "error", Err(_) => "panic" };
                    rep.fail(&format!("translate/{kind}/{}", lit_class(m)), &format!("{master:?} moved by {off:?} gave {got:?}, expected {exp:?}"), || Replay { json: json!({"master": master, "offset": off, "expected": exp}), files: vec![] });
                    break;
                }
            }
        }
        rep.cases_bulk(&local);
        crate::engine::crumb::clear();
    });
    rep.eval(n);
    rep.add_states(n, n);
    rep.trace(n);
    rep.extra("translator_calls", json!(n));
    rep.extra("master_formulas", json!(ms.len()));
    rep.sample(json!({"master": render(&ms[ms.len() / 3], (0, 0)), "moved_by": [2, 3], "expected": render(&ms[ms.len() / 3], (2, 3))}));
}

// ------------------------------------------------------------------------------------------------
fn formula_cells(r: &Range<String>) -> Vec<((u32, u32), String)> {
    match r.start() { None => vec![], Some(s) => r.used_cells().map(|(i, j, v)| ((s.0 + i as u32, s.1 + j as u32), v.clone())).collect() }
}

struct FCase { bytes: Vec<u8>, expect: Vec<((u32, u32), String)>, desc: serde_json::Value }

fn build(ch: &mut Chooser, ms: &[Vec<Piece>]) -> FCase {
    let shapes: [(u32, u32); 7] = [(3, 1), (1, 3), (2, 2), (2, 3), (1, 1), (4, 1), (3, 2)];
    let (h, w) = shapes[ch.choose("group-shape", shapes.len())];
    let anchor = [(0u32, 0u32), (5, 3), (0, 24)][ch.choose("master-position", 3)];
    let m = &ms[ch.choose("master-formula", ms.len())];
    // second group: none / below the first / its master on the last row of the first group, in the column to its left (so that
    // members of the first group still follow it in document order)
    let second = ch.choose("second-group(none,below,master-on-last-row-of-first)", 3);
    let two_groups = second > 0;
    let si_swapped = two_groups && ch.flag("si-order-swapped");
    let omit_member = ch.flag("one-member-without-formula");
    let mut cells: Vec<xlsx::XCell> = vec![];
    let mut expect = vec![];
    // the master is the first member in document order; with `skip` > 0 the first cells of the declared
    // rectangle are plain values (an L-shaped group whose ref is its bounding box), so the master is not the top-left cell
    let can_skip = h * w >= 3 && m.iter().all(|p| !matches!(p, Piece::Ref { col, ca: false, .. } if *col == 0));
    let skip: u32 = if can_skip { ch.choose("master-not-top-left", 3) as u32 } else { 0 };
    let mut add_group = |cells: &mut Vec<xlsx::XCell>, expect: &mut Vec<((u32, u32), String)>, si: u32, anchor: (u32, u32), h: u32, w: u32, m: &[Piece], omit: bool, skip: u32| {
        let rf = if h == 1 && w == 1 { a1(anchor.0, anchor.1) } else { format!("{}:{}", a1(anchor.0, anchor.1), a1(anchor.0 + h - 1, anchor.1 + w - 1)) };
        let master = (skip / w, skip % w);
        for dr in 0..h { for dc in 0..w {
            let (r, c) = (anchor.0 + dr, anchor.1 + dc);
            let mut cell = xlsx::XCell::new(r, c, xlsx::XVal::Num("1".into()));
            if dr * w + dc < skip { /* plain value before the master */ }
            else if (dr, dc) == master { cell.formula = Some(xlsx::XFormula::SharedMaster { si, rf: rf.clone(), text: render(m, (0, 0)) }); expect.push(((r, c), render(m, (0, 0)))); }
            else if omit && (dr, dc) == (h - 1, w - 1) { /* plain value cell inside the range: a member only if it says so */ }
            // a member left of / above a master that is not the top-left cell would move a reference off the sheet: no application
            // writes that; the cell stays a plain value
            else if !stays_inside(m, (dr as i64 - master.0 as i64, dc as i64 - master.1 as i64)) {}
            else { cell.formula = Some(xlsx::XFormula::SharedChild { si }); expect.push(((r, c), render(m, (dr as i64 - master.0 as i64, dc as i64 - master.1 as i64)))); }
            cells.push(cell);
        } }
    };
    // group indices are arbitrary numbers: 0,1 in document order, swapped, or sparse (3 and 7)
    let sparse = ch.flag("si-values-sparse(3,7)");
    let (si_a, si_b) = match (si_swapped, sparse) { (false, false) => (0, 1), (true, false) => (1, 0), (false, true) => (3, 7), (true, true) => (7, 3) };
    add_group(&mut cells, &mut expect, si_a, anchor, h, w, m, omit_member, skip);
    if two_groups {
        let m2 = &ms[(ms.len() / 2 + 7) % ms.len()];
        if second == 2 && anchor.1 >= 1 { add_group(&mut cells, &mut expect, si_b, (anchor.0 + h - 1, anchor.1 - 1), 3, 1, m2, false, 0); }
        else { add_group(&mut cells, &mut expect, si_b, (anchor.0 + 6, anchor.1 + 1), 2, 2, m2, false, 0); }
    }
    // cells outside any group: a plain formula, a value
    let mut plain = xlsx::XCell::new(anchor.0 + 10, anchor.1, xlsx::XVal::Num("2".into()));
    plain.formula = Some(xlsx::XFormula::Plain("A1*2".into()));
    expect.push(((anchor.0 + 10, anchor.1), "A1*2".into()));
    cells.push(plain);
    cells.push(xlsx::XCell::new(anchor.0 + 10, anchor.1 + 2, xlsx::XVal::Num("3".into())));
    let enc = xlsx::XEnc { prefix: ch.flag("xlsx.prefix"), indent: ch.flag("xlsx.indented"), comments: ch.flag("xlsx.comments-between-elements"), extras: ch.flag("xlsx.optional-neighbours-of-sheetData"), rows_never_r: ch.flag("xlsx.rows-never-carry-r"), shared_members_carry_text: ch.flag("xlsx.members-repeat-the-master-text"), split_text_nodes: ch.flag("xlsx.formula-text-split-by-cdata-and-comments"), cell_attrs_reversed: ch.flag("xlsx.attributes-of-c-and-f-in-reverse-order"), cell_r: if ch.flag("xlsx.cell-r-implicit") { xlsx::RMode::Implicit } else { xlsx::RMode::Explicit }, ..Default::default() };
    let bytes = xlsx::write(&xlsx::XBook { sheets: vec![xlsx::XSheet::new("S", cells)], ..Default::default() }, &enc);
    expect.sort();
    let desc = json!({"shape": [h, w], "master_cell": a1(anchor.0, anchor.1), "master": render(m, (0, 0)), "master_skips": skip, "second_group": second, "si_swapped": si_swapped, "member_without_formula": omit_member});
    FCase { bytes, expect, desc }
}

fn run_case(rep: &Report, ch: &mut Chooser, ms: &[Vec<Piece>], local: &mut Vec<(u64, bool, u64)>) {
    let c = build(ch, ms);
    rep.eval(1);
    let replay = || Replay { json: json!({"choices": ch.choices(), "case": c.desc, "expected": c.expect}), files: vec![("xlsx".into(), c.bytes.clone())] };
    let res = guarded(|| -> Result<Range<String>, String> {
        let mut wb: Xlsx<_> = Xlsx::new(Cursor::new(c.bytes.clone())).map_err(|e| format!("open: {e:?}"))?;
        wb.worksheet_formula("S").map_err(|e| format!("worksheet_formula: {e:?}"))
    });
    let shape = format!("{}x{}", c.desc["shape"][0], c.desc["shape"][1]);
    let outcome = match &res {
        Err(p) => { let site = normalise_site(p.rsplit(" @ ").next().unwrap_or("")); rep.fail(&format!("file/panic/{site}"), &format!("panicked: {p}"), replay); hash_of(p) }
        Ok(Err(e)) => { let cl: String = e.chars().take_while(|c| *c != '(' && *c != '{').collect(); rep.fail(&format!("file/error/{}", cl.trim()), e, replay); hash_of(e) }
        Ok(Ok(r)) => {
            let got = formula_cells(r);
            if got != c.expect {
                let missing = c.expect.iter().filter(|e| !got.iter().any(|g| g.0 == e.0)).count();
                let extra = got.iter().filter(|g| !c.expect.iter().any(|e| g.0 == e.0)).count();
                let kind = if missing > 0 { "member-missing" } else if extra > 0 { "extra-formula" } else { "member-text" };
                rep.fail(&format!("file/{kind}/{shape}{}", if c.desc["si_swapped"] == true { "/si-swapped" } else { "" }), &format!("formulas {got:?}, expected {:?}", c.expect), replay);
            }
            hash_of(&got)
        }
    };
    local.push((hash_of(&c.bytes), !ch.is_default(), outcome));
    if rep.want_sample() && ch.choices().iter().filter(|x| **x != 0).count() >= 2 { rep.sample(c.desc.clone()); }
}

pub fn check(rep: &Report) {
    let t = crate::thorough(&rep.tier);
    rep.rule("(a) master formulas = 47 templates (error constants incl. #N/A and #GETTING_DATA, apostrophes inside string literals and double quotes inside quoted sheet names, names that only look like references, defined names with non-ASCII letters ending like a cell reference, plain refs, areas, functions whose names end in digits, sheet-qualified and quoted-sheet refs incl. a sheet named Q1 and non-ASCII / apostrophe names, strings containing cell-like text and doubled quotes, numbers with exponents, defined names with digits, percent, booleans) x 16 references (4 absolute/relative combinations x A1, Z10, AA5, ZZ100) in every slot, translated by every offset of a window (quick 7 offsets, thorough 52) by the real translator vs the reference shift; (b) groups of shape {3x1,1x3,2x2,2x3,1x1,4x1,3x2} x master at {A1, D6, Y1} x every master formula x master not the top-left cell of the declared range (first 1-2 cells plain) x second group x swapped si order x a non-member cell inside the range x prefix x implicit cell refs, all choice vectors with <= 2 (thorough 3) deviations, through worksheet_formula; non-trivial = non-zero offset / non-default choice");
    rep.assume("offsets never move a reference outside the sheet; names that look exactly like a cell reference are not used as defined names");
    hook_sweep(rep, t);
    let ms = masters();
    let stats = Mutex::new(Stats::default());
    let mut st = Stats::default();
    let mut local = vec![];
    crate::engine::crumb::set_job("C15 file level");
    explore_deviations(|ch| run_case(rep, ch, &ms, &mut local), if t { 4 } else { 2 }, &mut st);
    rep.cases_bulk(&local);
    stats.lock().unwrap().merge(&st);
    crate::engine::crumb::clear();
    let st = stats.lock().unwrap();
    rep.add_states(st.nodes, st.edges);
    rep.trace(st.executions);
    rep.extra("file_level_executions", json!(st.executions));
    rep.extra("choice_labels_covered", st.label_summary());
    rep.exhaustive(true);
}

pub fn replay(path: &str) -> i32 {
    let Ok(s) = std::fs::read_to_string(path) else { return 2 };
    let v: serde_json::Value = serde_json::from_str(&s).unwrap();
    if let Some(m) = v.get("master").and_then(|m| m.as_str()) {
        if v.get("offset").is_some() {
            let off = (v["offset"][0].as_i64().unwrap(), v["offset"][1].as_i64().unwrap());
            println!("{m:?} moved by {off:?}: {:?}, expected {}", guarded(|| calamine::verif::xlsx::replace_cell_names(m, off)), v["expected"]);
            return 0;
        }
    }
    let choices: Vec<u32> = v["choices"].as_array().unwrap().iter().map(|x| x.as_u64().unwrap() as u32).collect();
    let ms = masters();
    let mut outs = vec![];
    for _ in 0..2 {
        let mut o = String::new();
        run_one(|ch| { let c = build(ch, &ms); o = format!("{:?}\nexpected {:?}", guarded(|| crate::props::dump::dump_xlsx(&c.bytes)), c.expect); }, &choices);
        outs.push(o);
    }
    if outs[0] != outs[1] { eprintln!("MACHINERY: replay not deterministic"); return 2; }
    println!("case: {}\nrecorded: {}\nobserved now: {}", v["case"], v["what"], outs[0]);
    0
}
