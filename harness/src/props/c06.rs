//! C06 — malformed or hostile files yield an error, never a panic, hang or memory blow-up.
//! E3: exhaustive single-fault (thorough: + pair) enumeration over seed files, every entry point, in
//! sandboxed worker processes with a panic hook, a limiting allocator and a watchdog.
use crate::engine::report::{Replay, Report};
use crate::engine::{alloc, guarded, hash_of, normalise_site};
use crate::gen::ovba::*;
use crate::gen::zipw::{rezip, unzip, Method};
use crate::gen::{biff8, cfb, ods, xlsb, xlsx};
use calamine::{open_workbook_auto_from_rs, HeaderRow, Ods, Reader, ReaderRef, Xls, Xlsb, Xlsx};
use serde_json::json;
use std::collections::BTreeMap;
use std::io::{Cursor, Write};

type Rebuild = Box<dyn Fn(&[u8]) -> Vec<u8> + Send + Sync>;

pub struct Target { pub label: String, pub bytes: Vec<u8>, pub rebuild: Rebuild, pub binary: bool }
pub struct Seed { pub name: String, pub fmt: &'static str, pub targets: Vec<Target>, pub file: Vec<u8> }

fn zip_seed(name: &str, fmt: &'static str, file: Vec<u8>) -> Seed {
    let parts = unzip(&file);
    let mut targets = vec![];
    for (i, (n, d, _)) in parts.iter().enumerate() {
        if n == "[Content_Types].xml" || n == "_rels/.rels" || n == "styles.xml" { continue; } // never read by calamine
        let ps = parts.clone();
        targets.push(Target { label: format!("member {n}"), bytes: d.clone(), binary: n.ends_with(".bin") || n == "mimetype", rebuild: Box::new(move |b: &[u8]| { let mut p = ps.clone(); p[i].1 = b.to_vec(); rezip(&p) }) });
    }
    targets.push(Target { label: "whole file (zip bytes)".into(), bytes: file.clone(), binary: true, rebuild: Box::new(|b: &[u8]| b.to_vec()) });
    Seed { name: name.into(), fmt, targets, file }
}

fn small_xlsx() -> Vec<u8> {
    let mut b = xlsx::XBook::default();
    b.sst = vec![xlsx::XText::plain("s0"), xlsx::XText { runs: vec![xlsx::XRun::R("r".into()), xlsx::XRun::R("t".into())], enc: xlsx::TextEnc::Entities }];
    b.styles = Some(xlsx::XStyles { num_fmts: vec![(164, "yyyy\\-mm".into()), (165, "\\[0.0\\]".into())], cell_xfs: vec![0, 14, 164, 165], cell_style_xfs: vec![0], omit_general_numfmt: false });
    let mut c1 = xlsx::XCell::new(1, 1, xlsx::XVal::Num("2".into())); c1.style = Some(1);
    c1.formula = Some(xlsx::XFormula::SharedMaster { si: 0, rf: "B2:B3".into(), text: "A1+1&\"q\"&'S 2'!A1".into() });
    let mut c2 = xlsx::XCell::new(2, 1, xlsx::XVal::Num("3".into())); c2.formula = Some(xlsx::XFormula::SharedChild { si: 0 });
    let mut sh = xlsx::XSheet::new("S1", vec![xlsx::XCell::new(0, 0, xlsx::XVal::SharedStr(1)), c1, c2, xlsx::XCell::new(2, 2, xlsx::XVal::InlineStr(xlsx::XText::plain("i"))), xlsx::XCell::new(3, 0, xlsx::XVal::Bool(true)), xlsx::XCell::new(3, 1, xlsx::XVal::Err("#N/A".into()))]);
    sh.merges = vec!["A1:B1".into()];
    sh.tables = vec![xlsx::XTable { name: "T".into(), display_name: "T".into(), rf: "A2:B4".into(), header_rows: None, totals_rows: Some(1), totals_row_shown: None, columns: vec!["a".into(), "b".into()], extras: false },
        // a table lying beside the used cells (legal: its cells are simply empty)
        xlsx::XTable { name: "Beside".into(), display_name: "Beside".into(), rf: "E1:F3".into(), header_rows: None, totals_rows: None, totals_row_shown: None, columns: vec!["e".into(), "f".into()], extras: false }];
    b.sheets = vec![sh, xlsx::XSheet::new("S2", vec![xlsx::XCell::new(0, 0, xlsx::XVal::Num("1".into()))])];
    b.defined_names = vec![("n".into(), "S1!$A$1".into())];
    b.date1904 = Some(false);
    xlsx::write(&b, &xlsx::XEnc::default())
}

fn small_xlsb() -> Vec<u8> {
    let items = vec![
        xlsb::BItem::Cell { row: 0, col: 0, style: 0, val: xlsb::BVal::Isst(1) }, xlsb::BItem::Cell { row: 0, col: 1, style: 1, val: xlsb::BVal::Rk((44197 << 2) | 2) },
        xlsb::BItem::Cell { row: 1, col: 0, style: 0, val: xlsb::BVal::Real(1.5) }, xlsb::BItem::Cell { row: 1, col: 1, style: 0, val: xlsb::BVal::St("st".into()) },
        xlsb::BItem::Cell { row: 2, col: 0, style: 0, val: xlsb::BVal::FmlaNum(3.0, vec![0x44, 0, 0, 0, 0, 0, 0xC0, 0x1E, 1, 0, 0x03]) }, xlsb::BItem::Cell { row: 2, col: 1, style: 0, val: xlsb::BVal::FmlaStr("f".into(), vec![0x3A, 0, 0, 1, 0, 0, 0, 1, 0]) },
        xlsb::BItem::Cell { row: 3, col: 0, style: 0, val: xlsb::BVal::Bool(true) }, xlsb::BItem::Cell { row: 3, col: 1, style: 0, val: xlsb::BVal::Err(7) },
        // calls without arguments: PI() as PtgFunc, ROW() as PtgFuncVar with a count of 0
        xlsb::BItem::Cell { row: 4, col: 0, style: 0, val: xlsb::BVal::FmlaNum(3.14, vec![0x21, 19, 0]) }, xlsb::BItem::Cell { row: 4, col: 1, style: 0, val: xlsb::BVal::FmlaNum(5.0, vec![0x22, 0, 8, 0]) },
    ];
    let b = xlsb::BBook { sheets: vec![xlsb::BSheet::new("S1", items), xlsb::BSheet::new("S2", vec![xlsb::BItem::Cell { row: 0, col: 0, style: 0, val: xlsb::BVal::Real(1.0) }])], sst: vec!["s0".into(), "s1".into()], fmts: vec![(164, "yyyy\\-mm".into())], xfs: vec![0, 14, 164],
        extern_sheets: Some(vec![(1, 1)]), names: vec![("n".into(), vec![0x3A, 0, 0, 0, 0, 0, 0, 0, 0])], ..Default::default() };
    xlsb::write(&b, Method::Deflated)
}

fn xls_book() -> biff8::BBook {
    let cells = vec![
        biff8::BCell::LabelSst { r: 0, c: 0, xf: 0, isst: 1 }, biff8::BCell::Rk { r: 0, c: 1, xf: 1, rk: (44197 << 2) | 2 },
        biff8::BCell::Number { r: 1, c: 0, xf: 0, v: 1.5 }, biff8::BCell::Label { r: 1, c: 1, xf: 0, text: "lb".into(), wide: true },
        biff8::BCell::MulRk { r: 2, c0: 0, items: vec![(0, 6), (0, 10)] },
        biff8::BCell::Formula { r: 3, c: 0, xf: 0, res: biff8::FRes::Str("f".into(), false), rgce: vec![0x5A, 0, 0, 1, 0, 0, 0xC0, 0x1E, 1, 0, 0x03, 0x17, 1, 0, b'x', 0x08] },
        biff8::BCell::BoolErr { r: 3, c: 1, xf: 0, val: 7, is_err: true },
        biff8::BCell::Formula { r: 4, c: 0, xf: 0, res: biff8::FRes::Num(2.0), rgce: vec![0x44, 0, 0, 0, 0xC0, 0x25, 0, 0, 1, 0, 0, 0xC0, 1, 0xC0, 0x42, 2, 4, 0] },
    ];
    let mut s = biff8::BSheet::new("S1", cells);
    s.merges = vec![vec![(0, 0, 0, 1)]];
    let mut chs = crate::engine::choice::Chooser::new(&[0, 0, 1, 0, 1]);
    biff8::BBook { sheets: vec![s, biff8::BSheet::new("S2", vec![biff8::BCell::Number { r: 0, c: 0, xf: 0, v: 1.0 }])],
        sst_records: biff8::sst_records(&mut chs, &[biff8::SstString::plain("s0"), biff8::SstString { text: "s\u{20ac}1".into(), runs: 1, ext: vec![1, 2] }], 2),
        formats: vec![(164, "yyyy\\-mm".into()), (165, "\\[0.0\\]".into())], xfs: vec![0, 14, 164, 165], extern_sheets: Some(vec![(1, 1)]), names: vec![("n".into(), vec![0x3A, 0, 0, 0, 0, 0, 0])], ..Default::default() }
}

fn small_ods() -> Vec<u8> {
    let f = |v: &str| ods::OCell::new(ods::OVal::Float(v.into(), "float"));
    let mut fc = f("2"); fc.formula = Some("of:=[.A1]+1".into());
    let rows = vec![
        ods::ORow { cells: vec![(ods::OCell::new(ods::OVal::StrContent("a  b\nc".into(), ods::SpaceMode::TextS, false)), 1), (f("1"), 2), (ods::OCell::empty(), 1020)], repeat: 1 },
        ods::ORow { cells: vec![(ods::OCell::empty(), 1)], repeat: 2 },
        // a row ending in a run of blank covered cells (the tail of a merged region)
        ods::ORow { cells: vec![(f("3"), 1), ({ let mut c = ods::OCell::empty(); c.covered = true; c }, 7)], repeat: 1 },
        ods::ORow { cells: vec![(ods::OCell::empty(), 1), (fc, 1), (ods::OCell::new(ods::OVal::Bool(true)), 1), (ods::OCell::new(ods::OVal::Date("2021-01-01".into())), 1)], repeat: 2 },
        ods::ORow { cells: vec![(ods::OCell::empty(), 1024)], repeat: 1_048_571 },
    ];
    ods::write(&ods::OBook { sheets: vec![ods::OSheet { name: "S1".into(), rows, display: Some(false) }, ods::OSheet { name: "S2".into(), rows: vec![ods::ORow { cells: vec![(f("1"), 1)], repeat: 1 }], display: None },
        // a used block that does not start in column A, with a blank row between its rows
        ods::OSheet { name: "S3".into(), rows: vec![ods::ORow { cells: vec![(ods::OCell::empty(), 7), (f("1"), 1)], repeat: 1 }, ods::ORow { cells: vec![(ods::OCell::empty(), 1)], repeat: 1 }, ods::ORow { cells: vec![(ods::OCell::empty(), 7), (f("2"), 1)], repeat: 1 }], display: None }], named: vec![("n".into(), Some("$S1.$A$1".into()), None)], ..Default::default() }, Method::Deflated)
}

fn vproject() -> VProject {
    VProject { codepage: 1252, modules: vec![VModule { name: "Module1".into(), stream_name: "Module1".into(), source: b"Sub A()\r\n  x = 1\r\n  x = 1\r\nEnd Sub\r\n".to_vec(), text_offset: 3, mode: 0, class_module: false, read_only: true, private: false },
        // a second module whose 4100 bytes do not compress: its container starts with a raw chunk
        VModule { name: "Blob".into(), stream_name: "Blob".into(), source: { let mut x = 0x2545F491u32; (0..4100).map(|_| { x ^= x << 13; x ^= x >> 17; x ^= x << 5; 0x21 + (x % 90) as u8 }).collect() }, text_offset: 0, mode: 2, class_module: false, read_only: false, private: false }],
        refs: vec![VRef { name: "stdole".into(), kind: RefKind::Registered }, VRef { name: "MSForms".into(), kind: RefKind::Control { original: true, extended_name: true } }, VRef { name: "Other".into(), kind: RefKind::Project }], compat_version: true, descriptive: false }
}

pub fn seeds(thorough: bool) -> Vec<Seed> {
    let mut v = vec![];
    v.push(zip_seed("xlsx-small", "xlsx", small_xlsx()));
    v.push(zip_seed("xlsb-small", "xlsb", small_xlsb()));
    v.push(zip_seed("ods-small", "ods", small_ods()));
    // xls: the Workbook stream (rewrapped in a valid container) and the container itself
    let stream = biff8::workbook_stream(&xls_book());
    let file = cfb::simple(&[("Workbook", stream.clone())], &cfb::Layout::default());
    v.push(Seed { name: "xls-small".into(), fmt: "xls", file: file.clone(), targets: vec![
        Target { label: "Workbook stream".into(), bytes: stream.clone(), binary: true, rebuild: Box::new(|b: &[u8]| cfb::simple(&[("Workbook", b.to_vec())], &cfb::Layout::default())) },
        Target { label: "whole file (compound file bytes)".into(), bytes: file, binary: true, rebuild: Box::new(|b: &[u8]| b.to_vec()) },
    ] });
    // VBA: the decompressed dir stream, a module stream, and the container, inside an xls file
    let p = vproject();
    let dir = dir_stream(&p);
    let build_vba_xls = |dir: &[u8], module: Option<&[u8]>| -> Vec<u8> {
        let p = vproject();
        let mut e = vec![cfb::Entry::stream("Workbook", biff8::workbook_stream(&xls_book()), None)];
        let mut pe = project_entries(&p, true, 1);
        for en in pe.iter_mut() {
            if en.name == "dir" { en.data = Some(compress(dir, 0)); }
            if en.name == "Module1" { if let Some(m) = module { en.data = Some(m.to_vec()); } }
        }
        e.extend(pe);
        cfb::write(&e, &cfb::Layout::default())
    };
    let vfile = build_vba_xls(&dir, None);
    let module_stream = { let mut s = vec![0xEEu8; 3]; s.extend(compress(&p.modules[0].source, 0)); s };
    let d2 = dir.clone();
    v.push(Seed { name: "xls-vba".into(), fmt: "xls", file: vfile.clone(), targets: vec![
        Target { label: "VBA dir stream (decompressed)".into(), bytes: dir.clone(), binary: true, rebuild: Box::new(move |b: &[u8]| build_vba_xls(b, None)) },
        Target { label: "VBA module stream (compressed container)".into(), bytes: module_stream, binary: true, rebuild: Box::new(move |b: &[u8]| build_vba_xls(&d2, Some(b))) },
    ] });
    if thorough {
        v.push(zip_seed("xlsx-rich", "xlsx", crate::props::c07::workbook("xlsx")));
        v.push(zip_seed("xlsb-rich", "xlsb", crate::props::c07::workbook("xlsb")));
        v.push(zip_seed("ods-rich", "ods", crate::props::c07::workbook("ods")));
        let f = crate::props::c07::workbook("xls");
        v.push(Seed { name: "xls-rich-container".into(), fmt: "xls", file: f.clone(), targets: vec![Target { label: "whole file (compound file with VBA storages)".into(), bytes: f, binary: true, rebuild: Box::new(|b: &[u8]| b.to_vec()) }] });
        let v4 = cfb::simple(&[("Workbook", { let mut s = biff8::workbook_stream(&xls_book()); s.resize(4096, 0); s })], &cfb::Layout { v4: true, ..Default::default() });
        v.push(Seed { name: "xls-v4-container".into(), fmt: "xls", file: v4.clone(), targets: vec![Target { label: "whole file (v4 compound file), first 1200 and directory bytes".into(), bytes: v4, binary: true, rebuild: Box::new(|b: &[u8]| b.to_vec()) }] });
    }
    v
}

#[derive(Clone, Copy, Debug, PartialEq)]
pub struct Fault { pub off: u32, pub op: u8 }

pub const OPS: [&str; 20] = ["truncate-here", "=0x00", "=0xFF", "^0x01", "^0x80", "+1", "-1", "u16=0xFFFF", "u16=0x7FFF", "u32=0xFFFFFFFF", "u32=0x7FFFFFFF", "u32=0x80000000", "delete-byte", "duplicate-byte", "delete-part",
    "number:=0", "number:=99999999", "number:=4294967295", "number:=18446744073709551616", "cellref:=XFD1048576"];

/// start of a decimal number / of an A1 cell reference in a text part
fn number_at(b: &[u8], i: usize) -> Option<usize> {
    if !b[i].is_ascii_digit() || (i > 0 && (b[i - 1].is_ascii_alphanumeric() || b[i - 1] == b'.')) { return None; }
    let mut j = i; while j < b.len() && b[j].is_ascii_digit() { j += 1; }
    Some(j)
}
fn cellref_at(b: &[u8], i: usize) -> Option<usize> {
    if !b[i].is_ascii_uppercase() || (i > 0 && !(b[i - 1] == b'"' || b[i - 1] == b':' || b[i - 1] == b'.' || b[i - 1] == b'$')) { return None; }
    let mut j = i; while j < b.len() && b[j].is_ascii_uppercase() { j += 1; }
    if j - i > 3 || j >= b.len() || !b[j].is_ascii_digit() { return None; }
    let mut k = j; while k < b.len() && b[k].is_ascii_digit() { k += 1; }
    if k < b.len() && (b[k] == b'"' || b[k] == b':' || b[k] == b']' || b[k] == b'<') { Some(k) } else { None }
}

pub fn apply(b: &[u8], f: Fault) -> Option<Vec<u8>> {
    let i = f.off as usize;
    let mut v = b.to_vec();
    match f.op {
        0 => { if i >= v.len() { return None; } v.truncate(i); }
        1 => { if v[i] == 0 { return None; } v[i] = 0; }
        2 => { if v[i] == 0xFF { return None; } v[i] = 0xFF; }
        3 => v[i] ^= 0x01,
        4 => v[i] ^= 0x80,
        5 => v[i] = v[i].wrapping_add(1),
        6 => v[i] = v[i].wrapping_sub(1),
        7 | 8 => { if i + 2 > v.len() { return None; } let w: u16 = if f.op == 7 { 0xFFFF } else { 0x7FFF }; if v[i..i + 2] == w.to_le_bytes() { return None; } v[i..i + 2].copy_from_slice(&w.to_le_bytes()); }
        9..=11 => { if i + 4 > v.len() { return None; } let w: u32 = match f.op { 9 => 0xFFFF_FFFF, 10 => 0x7FFF_FFFF, _ => 0x8000_0000 }; if v[i..i + 4] == w.to_le_bytes() { return None; } v[i..i + 4].copy_from_slice(&w.to_le_bytes()); }
        12 => { v.remove(i); }
        13 => { let x = v[i]; v.insert(i, x); }
        15..=18 => { let j = number_at(b, i)?; let rep: &[u8] = match f.op { 15 => b"0", 16 => b"99999999", 17 => b"4294967295", _ => b"18446744073709551616" }; if &b[i..j] == rep { return None; } v.splice(i..j, rep.iter().copied()); }
        19 => { let j = cellref_at(b, i)?; v.splice(i..j, b"XFD1048576".iter().copied()); }
        _ => { v.clear(); }
    }
    Some(v)
}

/// one case = (seed, target, first fault, optional second fault)
#[derive(Clone, Copy, Debug)]
pub struct Case { pub seed: u16, pub target: u16, pub a: Fault, pub b: Option<Fault> }

pub fn enumerate(seeds: &[Seed], thorough: bool) -> Vec<Case> {
    let mut v = vec![];
    for (si, s) in seeds.iter().enumerate() {
        for (ti, t) in s.targets.iter().enumerate() {
            let ops: Vec<u8> = if t.binary { (0..14).collect() } else { vec![0, 1, 2, 3, 5, 6, 12, 13] };
            // very long targets (padding, big streams): every byte of the first 3000, then every 7th
            let n = t.bytes.len();
            for off in 0..n {
                if off >= 3000 && off % 7 != 0 && !thorough { continue; }
                if off >= 12000 && off % 5 != 0 { continue; }
                for op in &ops { v.push(Case { seed: si as u16, target: ti as u16, a: Fault { off: off as u32, op: *op }, b: None }); }
                if !t.binary {
                    if number_at(&t.bytes, off).is_some() { for op in 15..=18u8 { v.push(Case { seed: si as u16, target: ti as u16, a: Fault { off: off as u32, op }, b: None }); } }
                    if cellref_at(&t.bytes, off).is_some() { v.push(Case { seed: si as u16, target: ti as u16, a: Fault { off: off as u32, op: 19 }, b: None }); }
                }
            }
            if t.label.starts_with("member ") { v.push(Case { seed: si as u16, target: ti as u16, a: Fault { off: 0, op: 14 }, b: None }); }
            if thorough && t.binary {
                // pairs of field-sized overwrites inside the first 160 bytes (headers, counts, first records)
                let m = n.min(160);
                for i in 0..m { for j in (i + 1)..m { for (o1, o2) in [(2u8, 2u8), (7, 9), (9, 7), (10, 1), (1, 9)] {
                    v.push(Case { seed: si as u16, target: ti as u16, a: Fault { off: i as u32, op: o1 }, b: Some(Fault { off: j as u32, op: o2 }) });
                } } }
            }
        }
    }
    v
}

pub fn materialise(seeds: &[Seed], c: &Case) -> Option<Vec<u8>> {
    let t = &seeds[c.seed as usize].targets[c.target as usize];
    if c.a.op == 14 {
        // delete the member entirely
        let s = &seeds[c.seed as usize];
        let name = t.label.trim_start_matches("member ");
        let parts: Vec<_> = unzip(&s.file).into_iter().filter(|p| p.0 != name).collect();
        return Some(rezip(&parts));
    }
    let mut b = apply(&t.bytes, c.a)?;
    if let Some(f2) = c.b { if (f2.off as usize) < b.len() { b = apply(&b, f2)?; } else { return None; } }
    Some((t.rebuild)(&b))
}

// ------------------------------------------------------------------------------------------------
// worker side

static mut PROGRESS_FD: i32 = -1;
fn progress(idx: u64, stage: u8) {
    unsafe {
        if PROGRESS_FD < 0 { return; }
        let mut buf = [0u8; 17];
        buf[..8].copy_from_slice(&idx.to_le_bytes());
        buf[8..16].copy_from_slice(&crate::engine::crumb::now_ms().to_le_bytes());
        buf[16] = stage;
        libc::pwrite(PROGRESS_FD, buf.as_ptr() as *const libc::c_void, 17, 0);
    }
}

pub const STAGES: [&str; 8] = ["build", "open", "ranges", "formulas", "worksheets", "vba", "format-specific", "auto-detect"];

fn exercise_reader<R: Reader<Cursor<Vec<u8>>>>(wb: &mut R, idx: u64) where R::Error: std::fmt::Debug {
    progress(idx, 2);
    let names: Vec<String> = wb.sheet_names().into_iter().take(4).collect();
    for n in &names { let _ = wb.worksheet_range(n); }
    let _ = wb.worksheet_range_at(0);
    wb.with_header_row(HeaderRow::Row(2));
    for n in &names { let _ = wb.worksheet_range(n); }
    wb.with_header_row(HeaderRow::FirstNonEmptyRow);
    progress(idx, 3);
    for n in &names { let _ = wb.worksheet_formula(n); }
    progress(idx, 4);
    let _ = wb.worksheets();
    let _ = wb.defined_names().len();
    let _ = wb.sheets_metadata().len();
    progress(idx, 5);
    if let Some(Ok(v)) = wb.vba_project() {
        for m in v.get_module_names() { let _ = v.get_module(m); let _ = v.get_module_raw(m); }
        let _ = v.get_references().len();
    }
}

/// every entry point of the statement on one input
pub fn exercise(fmt: &str, bytes: &[u8], idx: u64) {
    progress(idx, 1);
    match fmt {
        "xlsx" => if let Ok(mut wb) = Xlsx::new(Cursor::new(bytes.to_vec())) {
            exercise_reader(&mut wb, idx);
            progress(idx, 6);
            let names: Vec<String> = wb.sheet_names().into_iter().take(4).collect();
            for n in &names { let _ = wb.worksheet_range_ref(n).map(|r| r.get_size()); let _ = wb.worksheet_merge_cells(n); }
            let _ = wb.worksheet_merge_cells_at(0);
            if wb.load_merged_regions().is_ok() { for n in &names { let _ = wb.merged_regions_by_sheet(n).len(); } }
            if wb.load_tables().is_ok() {
                let tn: Vec<String> = wb.table_names().iter().map(|s| s.to_string()).collect();
                for t in tn.iter().take(4) { let _ = wb.table_by_name(t).map(|t| t.data().get_size()); let _ = wb.table_by_name_ref(t).map(|t| t.data().get_size()); }
            }
        },
        "xlsb" => if let Ok(mut wb) = Xlsb::new(Cursor::new(bytes.to_vec())) {
            exercise_reader(&mut wb, idx);
            progress(idx, 6);
            let names: Vec<String> = wb.sheet_names().into_iter().take(4).collect();
            for n in &names { let _ = wb.worksheet_range_ref(n).map(|r| r.get_size()); }
        },
        "xls" => if let Ok(mut wb) = Xls::new(Cursor::new(bytes.to_vec())) {
            exercise_reader(&mut wb, idx);
            progress(idx, 6);
            let names: Vec<String> = wb.sheet_names().into_iter().take(4).collect();
            for n in &names { let _ = wb.worksheet_merge_cells(n); }
            let _ = wb.worksheet_merge_cells_at(0);
        },
        _ => if let Ok(mut wb) = Ods::new(Cursor::new(bytes.to_vec())) { exercise_reader(&mut wb, idx); },
    }
    progress(idx, 7);
    if let Ok(mut wb) = open_workbook_auto_from_rs(Cursor::new(bytes.to_vec())) {
        let _ = wb.worksheet_range_at(0);
        let names: Vec<String> = wb.sheet_names().into_iter().take(1).collect();
        for n in &names { let _ = wb.worksheet_range_ref(n).map(|r| r.get_size()); }
    }
}

/// `cvx c06-worker <tier> <start> <end> <result-file> <progress-file>`
pub fn worker(args: &[String]) -> i32 {
    let thorough = args[0] == "thorough";
    let (start, end): (usize, usize) = (args[1].parse().unwrap(), args[2].parse().unwrap());
    let mut out = std::fs::OpenOptions::new().create(true).append(true).open(&args[3]).expect("result file");
    let pf = std::fs::OpenOptions::new().create(true).write(true).open(&args[4]).expect("progress file");
    use std::os::fd::AsRawFd;
    unsafe { PROGRESS_FD = pf.as_raw_fd(); }
    alloc::set_report_fd(out.as_raw_fd());
    alloc::init_exe_base();
    crate::engine::WANT_BACKTRACE.store(true, std::sync::atomic::Ordering::SeqCst);
    let sd = seeds(thorough);
    let cases = enumerate(&sd, thorough);
    for idx in start..end.min(cases.len()) {
        progress(idx as u64, 0);
        let c = &cases[idx];
        let Some(bytes) = materialise(&sd, c) else { continue };
        let fmt = sd[c.seed as usize].fmt;
        let limit = (64usize << 20).max(4096 * bytes.len());
        alloc::arm(limit, 4i64 << 30, idx);
        let r = guarded(|| exercise(fmt, &bytes, idx as u64));
        alloc::disarm();
        if let Err(p) = r {
            let site = normalise_site(p.rsplit(" @ ").next().unwrap_or(""));
            let msg: String = p.split(" @ ").next().unwrap_or("").chars().take(120).collect::<String>().replace(['\t', '\n'], " ");
            let bt = crate::engine::LAST_PANIC_BT.with(|l| l.borrow_mut().take()).unwrap_or_default();
            let _ = writeln!(out, "{idx}\tpanic\t{site}\t{msg}\t{bt}");
        }
    }
    progress(u64::MAX, 0);
    0
}

/// `cvx c06-baseline <tier> <seed index>`: the seed file as generated, without any fault, through every entry point.
/// Exit 0 = read without panic / blow-up; a panic prints its site and exits 3; an allocation blow-up exits 86.
pub fn baseline(args: &[String]) -> i32 {
    let thorough = args[0] == "thorough";
    let k: usize = args[1].parse().unwrap();
    let sd = seeds(thorough);
    let Some(seed) = sd.get(k) else { return 2 };
    alloc::set_report_fd(2);
    alloc::init_exe_base();
    let limit = (64usize << 20).max(4096 * seed.file.len());
    alloc::arm(limit, 4i64 << 30, usize::MAX - 1);
    let r = guarded(|| exercise(seed.fmt, &seed.file, u64::MAX - 1));
    alloc::disarm();
    match r { Ok(()) => 0, Err(p) => { println!("{}", p.replace('\n', " ")); 3 } }
}

// ------------------------------------------------------------------------------------------------
// coordinator

/// module-relative return addresses -> inlined frame chains [(function, file:line:col)] via llvm-symbolizer
fn symbolise(addrs: &[String], exe: &str) -> std::collections::HashMap<String, Vec<(String, String)>> {
    let mut uniq: Vec<&String> = addrs.iter().filter(|a| !a.is_empty()).collect();
    uniq.sort();
    uniq.dedup();
    let mut map = std::collections::HashMap::new();
    if uniq.is_empty() { return map; }
    // a return address points behind the call: look up address - 1
    let input: String = uniq.iter().map(|a| format!("0x{:x}\n", usize::from_str_radix(a, 16).unwrap_or(1).saturating_sub(1))).collect();
    let child = std::process::Command::new("llvm-symbolizer").args(["--obj", exe, "--inlines", "--demangle"]).stdin(std::process::Stdio::piped()).stdout(std::process::Stdio::piped()).stderr(std::process::Stdio::null()).spawn();
    let Ok(mut child) = child else { return map };
    // feed stdin from another thread: the symbolizer answers while it reads, a single thread would deadlock on the pipes
    let mut si = child.stdin.take().unwrap();
    let feeder = std::thread::spawn(move || { let _ = si.write_all(input.as_bytes()); });
    let out = child.wait_with_output().map(|o| String::from_utf8_lossy(&o.stdout).to_string()).unwrap_or_default();
    let _ = feeder.join();
    let mut blocks = out.split("\n\n");
    for a in uniq {
        let Some(b) = blocks.next() else { break };
        let lines: Vec<&str> = b.lines().collect();
        let mut fr = vec![];
        for pair in lines.chunks(2) { if pair.len() == 2 { fr.push((pair[0].to_string(), pair[1].to_string())); } }
        map.insert(a.clone(), fr);
    }
    map
}

fn message_class(m: &str) -> &'static str {
    if m.contains("overflow") { "arithmetic-overflow" } else if m.contains("out of range") || m.contains("out of bounds") || m.contains("index") { "index" } else if m.contains("unwrap") || m.contains("called `") { "unwrap" } else if m.contains("assert") { "assert" } else if m.contains("mid > len") || m.contains("split") { "split" } else if m.contains("unimplemented") { "unimplemented" } else { "other" }
}

pub fn check(rep: &Report) {
    let t = crate::thorough(&rep.tier);
    rep.rule("baseline = every seed workbook unfaulted through every entry point (no panic / blow-up / stall, independent of the known-findings list); seeds = generated workbooks (quick: a small xlsx, xlsb, ods, xls and an xls with a VBA project; thorough: + the feature-rich C07 workbooks and a v4 container); fault targets = every zip member after inflation (re-zipped with valid CRC), the raw zip bytes, the BIFF8 Workbook stream (re-wrapped in a valid compound file), the raw compound-file bytes (header, FAT, directory, mini stream), the decompressed VBA dir stream (re-compressed) and a compressed module stream; faults = at every byte offset {truncate here, =0x00, =0xFF, ^0x01, ^0x80, +1, -1, u16=0xFFFF/0x7FFF, u32=0xFFFFFFFF/0x7FFFFFFF/0x80000000, delete byte, duplicate byte} (text parts: 8 of them, plus every decimal number replaced by {0, 99999999, 4294967295, 2^64} and every cell reference by XFD1048576), every member deleted; thorough: + all pairs of 5 field-sized overwrite combinations inside the first 160 bytes of every binary target; every case runs new(), ranges (default and header row 2), formulas, worksheets(), metadata, vba_project + modules, merge cells / tables / range_ref, and auto-detection, in a worker process with a panic hook (overflow checks on), an allocator that refuses a single request above max(64 MiB, 4096 x input length) or 4 GiB live, and a 10 s no-progress watchdog; non-trivial = the faulted file differs from the seed; distinct by (seed, target, fault)");
    rep.assume("'time proportional to the input' is checked as 'no case stalls for 10 s' (cases take well under 10 ms); 'memory out of proportion' as the allocator thresholds; random multi-fault combinations beyond the enumerated pairs are not covered");
    rep.max_keys.store(2000, std::sync::atomic::Ordering::Relaxed);
    let sd = seeds(t);
    // the seed files themselves are well-formed workbooks: whatever the faulted copies do, the originals must read without any
    // panic, blow-up or stall (this is not subject to the known-findings list, which names sites reached by faulted input)
    let exe0 = std::env::current_exe().unwrap();
    for (k, seed) in sd.iter().enumerate() {
        rep.eval(1);
        let mut cmd = std::process::Command::new(&exe0);
        cmd.args(["c06-baseline", &rep.tier, &k.to_string()]).env_remove("VERIF_CRUMBS").stdout(std::process::Stdio::piped()).stderr(std::process::Stdio::null());
        unsafe { use std::os::unix::process::CommandExt; cmd.pre_exec(|| { libc::prctl(libc::PR_SET_PDEATHSIG, libc::SIGKILL); Ok(()) }); }
        let Ok(mut child) = cmd.spawn() else { continue };
        let started = std::time::Instant::now();
        let status = loop {
            match child.try_wait() { Ok(Some(st)) => break Some(st), Ok(None) => {} Err(_) => break None }
            if started.elapsed().as_secs() > 30 { let _ = child.kill(); let _ = child.wait(); break None; }
            std::thread::sleep(std::time::Duration::from_millis(10));
        };
        let mut out = String::new();
        if let Some(mut so) = child.stdout.take() { use std::io::Read; let _ = so.read_to_string(&mut out); }
        let what = match status { None => Some("stalled for 30 s".to_string()), Some(st) if st.code() == Some(0) => None, Some(st) if st.code() == Some(3) => Some(format!("panicked: {}", out.trim())), Some(st) if st.code() == Some(86) => Some("allocation out of proportion".to_string()), Some(st) => Some(format!("worker ended with {st:?}")) };
        let name = seed.name.clone(); let file = seed.file.clone(); let fmt = seed.fmt;
        rep.case(hash_of(&("baseline", &name)), false, hash_of(&what));
        if let Some(w) = what {
            let site = if w.starts_with("panicked") { normalise_site(w.rsplit(" @ ").next().unwrap_or("")) } else { w.chars().take(24).collect() };
            rep.fail(&format!("well-formed-seed/{name}/{site}"), &format!("the unfaulted seed workbook {name}: {w}"), || Replay { json: json!({"seed": name, "fault": "none", "format": fmt}), files: vec![(fmt.to_string(), file.clone())] });
        }
    }
    let cases = enumerate(&sd, t);
    let n = cases.len();
    let dir = format!("{}/target/run/c06-{}", crate::verif_root(), std::process::id());
    let _ = std::fs::create_dir_all(&dir);
    let exe = std::env::current_exe().unwrap();
    let slice = if t { 20_000 } else { 3_000 };
    let mut pending: Vec<(usize, usize)> = (0..n).step_by(slice).map(|s| (s, (s + slice).min(n))).collect();
    pending.reverse();
    struct W { child: std::process::Child, end: usize, res: String, prog: String, id: usize }
    let mut running: Vec<W> = vec![];
    let mut next_id = 0usize;
    let mut events: Vec<(usize, String, String, String, String)> = vec![]; // (case, kind, site, detail, raw backtrace)
    let maxw = 16;
    let tier = rep.tier.clone();
    let spawn = |start: usize, end: usize, id: usize| -> W {
        let res = format!("{dir}/res.{id}");
        let prog = format!("{dir}/prog.{id}");
        let _ = std::fs::write(&prog, [0u8; 17]);
        let mut cmd = std::process::Command::new(&exe);
        cmd.args(["c06-worker", &tier, &start.to_string(), &end.to_string(), &res, &prog]).env_remove("VERIF_CRUMBS").stderr(std::process::Stdio::null());
        unsafe { use std::os::unix::process::CommandExt; cmd.pre_exec(|| { libc::prctl(libc::PR_SET_PDEATHSIG, libc::SIGKILL); Ok(()) }); }
        let child = cmd.spawn().expect("spawn worker");
        W { child, end, res, prog, id }
    };
    let read_prog = |p: &str| -> (u64, u64, u8) { let b = std::fs::read(p).unwrap_or_default(); if b.len() < 17 { return (0, 0, 0); } (u64::from_le_bytes(b[..8].try_into().unwrap()), u64::from_le_bytes(b[8..16].try_into().unwrap()), b[16]) };
    let mut hang_files: Vec<usize> = vec![];
    loop {
        while running.len() < maxw { if let Some((s, e)) = pending.pop() { running.push(spawn(s, e, next_id)); next_id += 1; } else { break; } }
        if running.is_empty() { break; }
        std::thread::sleep(std::time::Duration::from_millis(20));
        if std::env::var("C06_DEBUG").is_ok() { static mut T: u64 = 0; let now = crate::engine::crumb::now_ms() / 2000; unsafe { if now != T { T = now; eprintln!("pending={} running={} events={} spawned={}", pending.len(), running.len(), events.len(), next_id); } } }
        let mut i = 0;
        while i < running.len() {
            let w = &mut running[i];
            let st = w.child.try_wait().ok().flatten();
            let (idx, ts, stage) = read_prog(&w.prog);
            let mut finished = false;
            let mut resume_from: Option<usize> = None;
            if let Some(st) = st {
                finished = true;
                if idx != u64::MAX {
                    // died inside case idx
                    use std::os::unix::process::ExitStatusExt;
                    let why = if st.code() == Some(86) { None } else if let Some(sig) = st.signal() { Some(format!("killed by signal {sig}")) } else { Some(format!("exit code {:?}", st.code())) };
                    if let Some(why) = why { events.push((idx as usize, "abort".into(), format!("{}", STAGES[stage as usize % 8]), why, String::new())); }
                    resume_from = Some(idx as usize + 1);
                }
            } else if ts != 0 && idx != u64::MAX && crate::engine::crumb::now_ms().saturating_sub(ts) > (if hang_files.len() < 3 { 10_000 } else { 1_500 }) {
                // 10 s without progress (cases take milliseconds); once three hangs are established a 1.5 s stall is enough
                let _ = w.child.kill();
                let _ = w.child.wait();
                finished = true;
                events.push((idx as usize, "hang".into(), STAGES[stage as usize % 8].to_string(), if hang_files.len() < 3 { "no progress for 10 s".to_string() } else { "no progress for 1.5 s (after three 10 s hangs)".to_string() }, String::new()));
                hang_files.push(idx as usize);
                resume_from = Some(idx as usize + 1);
            }
            if finished {
                let w = running.remove(i);
                if let Ok(s) = std::fs::read_to_string(&w.res) {
                    for line in s.lines() { let f: Vec<&str> = line.splitn(5, '\t').collect(); if f.len() >= 4 { if let Ok(ix) = f[0].parse::<usize>() { events.push((ix, f[1].to_string(), f[2].to_string(), f[3].to_string(), f.get(4).unwrap_or(&"").to_string())); } } }
                }
                let _ = std::fs::remove_file(&w.res);
                let _ = std::fs::remove_file(&w.prog);
                if let Some(r) = resume_from {
                    // split what is left so idle workers share failure-dense slices
                    let left = w.end.saturating_sub(r);
                    if left > 256 { let q = left / 4; for k in 0..4 { let a = r + k * q; let b = if k == 3 { w.end } else { r + (k + 1) * q }; if a < b { pending.push((a, b)); } } }
                    else if left > 0 { pending.push((r, w.end)); }
                }
                let _ = w.id;
            } else { i += 1; }
        }
    }
    let _ = std::fs::remove_dir_all(&dir);
    // aggregate
    events.sort();
    events.dedup();
    // symbolise the distinct return addresses once (llvm-symbolizer), then name each event by its first
    // frame inside /repo/src (for panics raised in the shared little-endian helpers of utils.rs: the caller)
    let sym = symbolise(&events.iter().flat_map(|e| e.4.split(',').map(|s| s.to_string())).collect::<Vec<_>>(), &exe.to_string_lossy());
    let repo_frames = |bt: &str| -> Vec<String> {
        let mut v = vec![];
        for a in bt.split(',') { if let Some(fr) = sym.get(a) { for (_f, loc) in fr { if loc.starts_with("/repo/src/") {
            let fl = loc.rsplitn(2, ':').last().map(|x| x.to_string()).unwrap_or_default(); // file:line
            let line: usize = fl.rsplit(':').next().and_then(|x| x.parse().ok()).unwrap_or(0);
            if line <= 1 { continue; } // artificial attribution of inlined code
            let site = normalise_site(&fl);
            if site.contains("|use ") || site.ends_with('|') { continue; }
            v.push(site);
        } } } }
        v
    };
    let mut by_key: BTreeMap<String, Vec<(usize, String)>> = BTreeMap::new();
    for (ix, kind, site, detail, bt) in &events {
        let c = &cases[*ix];
        let fmt = sd[c.seed as usize].fmt;
        let frames = repo_frames(bt);
        let key = match kind.as_str() {
            "panic" => {
                // the little-endian helpers of utils.rs are shared by all binary parsers: qualify by format and fault target
                // (a caller taken from the backtrace would depend on the optimiser's inlining and is therefore not used as a key)
                if site.starts_with("src/utils.rs|") { format!("panic @ {site} [{fmt}: {}]", sd[c.seed as usize].targets[c.target as usize].label.split(' ').take(3).collect::<Vec<_>>().join(" ")) }
                else if !site.starts_with("src/") { match frames.first() { Some(c) => format!("panic @ {site} <- {c}"), None => format!("panic @ {site}") } }
                else { format!("panic @ {site}") }
            }
            // in a text part the site is qualified by the element / attribute the fault sits in: the same allocation site can be
            // reached from counts that are meant to expand (a repeated cell with a value) and from ones that are not
            "alloc" => format!("alloc-blowup @ {}{}", frames.first().cloned().unwrap_or_else(|| format!("{fmt} (no calamine frame)")),
                xml_context(&sd[c.seed as usize].targets[c.target as usize].bytes, c.a.off as usize).map(|x| format!(" [in {x}]")).unwrap_or_default()),
            "hang" => format!("hang @ {fmt} {site} / {}", sd[c.seed as usize].targets[c.target as usize].label.split(' ').take(2).collect::<Vec<_>>().join(" ")),
            _ => format!("abort @ {fmt} {site}"),
        };
        by_key.entry(key).or_default().push((*ix, detail.clone()));
    }
    for (key, v) in &by_key {
        let (ix, detail) = &v[0];
        let c = cases[*ix];
        let s = &sd[c.seed as usize];
        let what = format!("{} ({}; {} cases; first: seed {} / {} / offset {} {}{})", detail, if key.starts_with("panic") { message_class(detail) } else { "" }, v.len(), s.name, s.targets[c.target as usize].label, c.a.off, OPS[c.a.op as usize], c.b.map(|b| format!(" + offset {} {}", b.off, OPS[b.op as usize])).unwrap_or_default());
        for _ in 0..v.len().saturating_sub(1) { rep.fail(key, &what, || Replay { json: json!({}), files: vec![] }); }
        rep.fail(key, &what, || Replay { json: json!({"seed": s.name, "target": s.targets[c.target as usize].label, "fault": {"offset": c.a.off, "op": OPS[c.a.op as usize]}, "second_fault": c.b.map(|b| json!({"offset": b.off, "op": OPS[b.op as usize]})), "format": s.fmt, "case_index": ix}), files: vec![(s.fmt.to_string(), materialise(&sd, &c).unwrap_or_default())] });
    }
    rep.eval(n as u64);
    let mut local = Vec::with_capacity(n);
    let bad: std::collections::HashSet<usize> = events.iter().map(|e| e.0).collect();
    for (i, c) in cases.iter().enumerate() { local.push((hash_of(&(c.seed, c.target, c.a.off, c.a.op, c.b.map(|b| (b.off, b.op)))), true, if bad.contains(&i) { 1 } else { 0 })); }
    rep.cases_bulk(&local);
    rep.extra("cases", json!(n));
    rep.extra("cases_with_panic_alloc_hang_or_abort", json!(bad.len()));
    rep.extra("distinct_failure_keys", json!(by_key.len()));
    rep.extra("seeds", json!(sd.iter().map(|s| json!({"name": s.name, "targets": s.targets.iter().map(|t| format!("{} ({} bytes)", t.label, t.bytes.len())).collect::<Vec<_>>()})).collect::<Vec<_>>()));
    rep.extra("entry_points", json!(STAGES));
    for k in [n / 7, n / 2, n - 1] { let c = cases[k]; let s = &sd[c.seed as usize]; rep.sample(json!({"seed": s.name, "target": s.targets[c.target as usize].label, "offset": c.a.off, "op": OPS[c.a.op as usize]})); }
    rep.exhaustive(true);
}

/// `<element attribute>` around offset `off` of an XML part (None for binary parts)
fn xml_context(b: &[u8], off: usize) -> Option<String> {
    if !b.starts_with(b"<?xml") && !b.starts_with(b"<") { return None; }
    let off = off.min(b.len().saturating_sub(1));
    let lt = b[..=off].iter().rposition(|c| *c == b'<')?;
    let gt = b[lt..].iter().position(|c| *c == b'>').map(|p| lt + p).unwrap_or(b.len());
    let ns = if b.get(lt + 1) == Some(&b'/') { lt + 2 } else { lt + 1 };
    let name_end = b[ns..].iter().position(|c| c.is_ascii_whitespace() || *c == b'>' || *c == b'/').map(|p| ns + p).unwrap_or(b.len());
    let elem = format!("{}{}", if ns == lt + 2 { "/" } else { "" }, String::from_utf8_lossy(&b[ns..name_end]));
    if off > gt { return Some(format!("text of {}", elem)); }
    // attribute: the name before the nearest =" at or before off
    let eq = b[lt..=off].windows(2).rposition(|w| w == b"=\"").map(|p| lt + p);
    match eq {
        Some(e) if e > name_end => { let st = b[..e].iter().rposition(|c| c.is_ascii_whitespace()).map(|p| p + 1).unwrap_or(lt); Some(format!("{} {}", elem, String::from_utf8_lossy(&b[st..e]))) }
        _ => Some(elem),
    }
}

pub fn replay(path: &str) -> i32 {
    let Ok(s) = std::fs::read_to_string(path) else { return 2 };
    let v: serde_json::Value = serde_json::from_str(&s).unwrap();
    let Some(f) = v["files"].as_array().and_then(|a| a.first()).and_then(|f| f.as_str()) else { println!("{v}"); return 0 };
    let bytes = std::fs::read(f).unwrap_or_default();
    let fmt = v["format"].as_str().unwrap_or("xlsx").to_string();
    println!("replaying {} ({} bytes) — a hang or memory blow-up will not return; recorded: {}", f, bytes.len(), v["what"]);
    alloc::arm((64usize << 20).max(4096 * bytes.len()), 4i64 << 30, 0);
    let r = guarded(|| exercise(&fmt, &bytes, 0));
    alloc::disarm();
    println!("observed now: {:?}", r.map(|_| "all calls returned Ok/Err"));
    0
}
