//! C19 — cell text survives every storage form and escaping layer unchanged (all four formats).
use crate::engine::choice::{explore_deviations, explore_full, run_one, Chooser, Stats};
use crate::engine::report::{Replay, Report};
use crate::engine::{guarded, hash_of, normalise_site};
use crate::gen::zipw::Method;
use crate::gen::{biff8, cfb, ods, xlsb, xlsx};
use calamine::{Data, Ods, Reader, Xls, Xlsb, Xlsx};
use rayon::prelude::*;
use serde_json::json;
use std::io::Cursor;
use std::sync::Mutex;

const ATOMS: [&str; 15] = ["a", " ", "  ", "\t", "\n", "&", "<", ">", "\"", "'", "]]>", "\u{e9}", "\u{20ac}", "\u{1F600}", "\u{91}"];
const FORMATS: [&str; 4] = ["xlsx", "xlsb", "xls", "ods"];
const SENTINEL: &str = "k";

fn split_runs(s: &str, n: usize) -> Vec<String> {
    // split into n pieces at character boundaries (pieces may be empty)
    let chars: Vec<char> = s.chars().collect();
    let mut out = vec![];
    for i in 0..n {
        let a = chars.len() * i / n;
        let b = chars.len() * (i + 1) / n;
        out.push(chars[a..b].iter().collect());
    }
    out
}

/// returns (file bytes, description of the storage form)
fn build(ch: &mut Chooser, fmt: &str, s: &str) -> (Vec<u8>, String) {
    match fmt {
        "xlsx" => {
            let storage = ch.choose("xlsx.storage", 3); // shared, inline, formula string
            let enc = ch.pick("xlsx.text-encoding", &[xlsx::TextEnc::Entities, xlsx::TextEnc::DecRefs, xlsx::TextEnc::HexRefs, xlsx::TextEnc::CData, xlsx::TextEnc::Mixed]);
            let shape = if storage < 2 { ch.choose("xlsx.runs", 6) } else { 0 };
            let text = |s: &str| -> xlsx::XText {
                let runs = match shape {
                    0 => vec![xlsx::XRun::T(s.to_string())],
                    1 => vec![xlsx::XRun::R(s.to_string())],
                    2 => split_runs(s, 2).into_iter().map(xlsx::XRun::R).collect(),
                    3 => split_runs(s, 3).into_iter().map(xlsx::XRun::R).collect(),
                    4 => vec![xlsx::XRun::T(s.to_string()), xlsx::XRun::RPh("PHON".into()), xlsx::XRun::PhoneticPr],
                    _ => { let mut v: Vec<xlsx::XRun> = split_runs(s, 2).into_iter().map(xlsx::XRun::R).collect(); v.insert(1, xlsx::XRun::RPh("ph<&".into())); v.push(xlsx::XRun::PhoneticPr); v }
                };
                xlsx::XText { runs, enc }
            };
            let mut book = xlsx::XBook::default();
            let empty_first = storage == 0 && ch.flag("xlsx.empty-si-before");
            let (val, sent) = match storage {
                0 => {
                    if empty_first { book.sst.push(xlsx::XText { runs: vec![], enc }); }
                    book.sst.push(xlsx::XText::plain(SENTINEL));
                    if ch.flag("xlsx.empty-si-between") { book.sst.push(xlsx::XText { runs: vec![], enc }); }
                    book.sst.push(text(s));
                    (xlsx::XVal::SharedStr(book.sst.len() - 1), xlsx::XVal::SharedStr(if empty_first { 1 } else { 0 }))
                }
                1 => (xlsx::XVal::InlineStr(text(s)), xlsx::XVal::InlineStr(xlsx::XText::plain(SENTINEL))),
                _ => (xlsx::XVal::Str(s.to_string(), enc), xlsx::XVal::Str(SENTINEL.into(), xlsx::TextEnc::Entities)),
            };
            let mut c = xlsx::XCell::new(1, 1, val);
            if storage == 2 { c.formula = Some(xlsx::XFormula::Plain("\"x\"".into())); }
            book.sheets.push(xlsx::XSheet::new("S", vec![xlsx::XCell::new(0, 0, sent), c]));
            // comments between elements and the optional neighbours of sheetData vary with the string (not as free choices: the
            // storage forms already multiply) so that every third / every second string is written with them
            let hs = crate::engine::hash_of(&s);
            let e = xlsx::XEnc { prefix: ch.flag("xlsx.prefix"), indent: ch.flag("xlsx.indented"), comments: hs % 3 == 0, extras: hs % 2 == 1, ..Default::default() };
            (xlsx::write(&book, &e), format!("xlsx storage={storage} enc={enc:?} runs={shape} prefix={}", e.prefix))
        }
        "xlsb" => {
            let storage = ch.choose("xlsb.storage", 3);
            let mut book = xlsb::BBook::default();
            let val = match storage {
                0 => {
                    let extra = ch.choose("xlsb.rich-phonetic", 4);
                    book.sst = vec![SENTINEL.to_string(), s.to_string()];
                    book.sst_extra = vec![(0, None), match extra { 0 => (0, None), 1 => (2, None), 2 => (0, Some("PH".into())), _ => (1, Some("ph".into())) }];
                    xlsb::BVal::Isst(1)
                }
                1 => xlsb::BVal::St(s.to_string()),
                _ => xlsb::BVal::FmlaStr(s.to_string(), vec![0x1E, 1, 0]),
            };
            let sent = if storage == 0 { xlsb::BVal::Isst(0) } else { xlsb::BVal::St(SENTINEL.into()) };
            book.sheets.push(xlsb::BSheet::new("S", vec![xlsb::BItem::Cell { row: 0, col: 0, style: 0, val: sent }, xlsb::BItem::Cell { row: 1, col: 1, style: 0, val }]));
            (xlsb::write(&book, Method::Deflated), format!("xlsb storage={storage}"))
        }
        "xls" => {
            // LABEL / STRING records cannot exceed 8224 bytes without CONTINUE: long strings go to the SST only
            let storage = if s.len() > 4000 { 0 } else { ch.choose("xls.storage", 3) };
            let wide = ch.flag("xls.16bit");
            let mut book = biff8::BBook::default();
            let cell = match storage {
                0 => {
                    let extra = ch.choose("xls.rich-ext", 3);
                    let (runs, ext) = match extra { 0 => (0, vec![]), 1 => (2, vec![]), _ => (1, vec![1, 2, 3, 4]) };
                    let mut table = vec![biff8::SstString { text: SENTINEL.into(), runs, ext: vec![] }, biff8::SstString { text: s.to_string(), runs, ext: ext.clone() }];
                    // an empty item that still carries formatting runs / a phonetic block sits before the item under test
                    let shifted = extra > 0 && ch.flag("xls.empty-item-with-runs-or-phonetic-block-before");
                    if shifted { table.insert(1, biff8::SstString { text: String::new(), runs, ext }); }
                    // packing of the SST segments: forced to 16-bit through the chooser of the serialiser
                    let mut inner = Chooser::new(&if wide { vec![0, 0, 1, 1] } else { vec![] });
                    book.sst_records = biff8::sst_records(&mut inner, &table, 2);
                    biff8::BCell::LabelSst { r: 1, c: 1, xf: 0, isst: if shifted { 2 } else { 1 } }
                }
                1 => biff8::BCell::Label { r: 1, c: 1, xf: 0, text: s.to_string(), wide },
                _ => biff8::BCell::Formula { r: 1, c: 1, xf: 0, res: if s.is_empty() { biff8::FRes::EmptyStr } else { biff8::FRes::Str(s.to_string(), wide) }, rgce: vec![0x1E, 1, 0] },
            };
            let sent = if storage == 0 { biff8::BCell::LabelSst { r: 0, c: 0, xf: 0, isst: 0 } } else { biff8::BCell::Label { r: 0, c: 0, xf: 0, text: SENTINEL.into(), wide: false } };
            book.sheets.push(biff8::BSheet::new("S", vec![sent, cell]));
            let mut stream = biff8::workbook_stream(&book);
            if stream.len() < 4096 { stream.resize(4096, 0); }
            (cfb::simple(&[("Workbook", stream)], &cfb::Layout::default()), format!("xls storage={storage} 16bit={wide}"))
        }
        _ => {
            let storage = ch.choose("ods.storage", 7);
            let annotated = ch.flag("ods.cell-has-a-comment");
            let val = match storage {
                0 => ods::OVal::StrContent(s.to_string(), ods::SpaceMode::TextS, false),
                1 => ods::OVal::StrContent(s.to_string(), ods::SpaceMode::Literal, false),
                2 => ods::OVal::StrContent(s.to_string(), ods::SpaceMode::TextSAll, false),
                3 => ods::OVal::StrContent(s.to_string(), ods::SpaceMode::TextSEach, false),
                4 => ods::OVal::StrContent(s.to_string(), ods::SpaceMode::TextS, true),
                5 => ods::OVal::StrAttr(s.to_string()),
                _ => ods::OVal::StrAttrBare(s.to_string()),
            };
            let book = ods::OBook { sheets: vec![ods::OSheet { name: "S".into(), display: None, rows: vec![
                ods::ORow { cells: vec![(ods::OCell::new(ods::OVal::StrContent(SENTINEL.into(), ods::SpaceMode::TextS, false)), 1)], repeat: 1 },
                ods::ORow { cells: vec![(ods::OCell::empty(), 1), ({ let mut c = ods::OCell::new(val); c.annotation = annotated; c }, 1)], repeat: 1 },
            ] }], indent: ch.flag("ods.document-indented"), xml_comments: ch.flag("ods.xml-comments-inside-and-between-rows"), row_wrappers: ch.choose("ods.row-grouping-elements", 4) as u8, cell_attr_order: ch.choose("ods.cell-attribute-order", 3) as u8, ..Default::default() };
            (ods::write(&book, Method::Deflated), format!("ods storage={storage}{}", if annotated { " annotated" } else { "" }))
        }
    }
}

fn read(fmt: &str, bytes: &[u8]) -> Result<(Data, Data), String> {
    fn go<R: Reader<Cursor<Vec<u8>>>>(b: &[u8]) -> Result<(Data, Data), String> where R::Error: std::fmt::Debug {
        let mut wb = R::new(Cursor::new(b.to_vec())).map_err(|e| format!("open: {e:?}"))?;
        let r = wb.worksheet_range("S").map_err(|e| format!("worksheet_range: {e:?}"))?;
        Ok((r.get_value((0, 0)).cloned().unwrap_or(Data::Empty), r.get_value((1, 1)).cloned().unwrap_or(Data::Empty)))
    }
    match fmt { "xlsx" => go::<Xlsx<_>>(bytes), "xlsb" => go::<Xlsb<_>>(bytes), "xls" => go::<Xls<_>>(bytes), _ => go::<Ods<_>>(bytes) }
}

fn applicable(fmt: &str, s: &str) -> bool {
    let _ = (fmt, s);
    true
}

fn run_case(rep: &Report, ch: &mut Chooser, fmt: &str, s: &str, local: &mut Vec<(u64, bool, u64)>) {
    let (bytes, form) = build(ch, fmt, s);
    if fmt == "ods" && s.contains('\n') && form.contains("storage=5") { return; } // attribute form keeps the newline, content form splits paragraphs: both fine, but the attribute + paragraph content disagree by construction — skip
    rep.eval(1);
    let replay = || Replay { json: json!({"format": fmt, "string": s, "choices": ch.choices(), "form": form}), files: vec![(fmt.to_string(), bytes.clone())] };
    let res = guarded(|| read(fmt, &bytes));
    let class = if s.chars().count() > 1000 { "long" } else if s.is_empty() { "empty" } else { "short" };
    let outcome = match &res {
        Err(p) => { let site = normalise_site(p.rsplit(" @ ").next().unwrap_or("")); rep.fail(&format!("{fmt}/panic/{site}"), &format!("reader panicked: {p} [{form}]"), replay); hash_of(p) }
        Ok(Err(e)) => { let cl: String = e.chars().take_while(|c| *c != '(' && *c != '{').collect(); rep.fail(&format!("{fmt}/error/{}", cl.trim()), &format!("well-formed file rejected: {e} [{form}]"), replay); hash_of(e) }
        Ok(Ok((sent, got))) => {
            let ok_sent = *sent == Data::String(SENTINEL.into());
            let ok = match got { Data::String(g) => g == s, Data::Empty => s.is_empty(), _ => false };
            if !ok_sent { rep.fail(&format!("{fmt}/neighbour-string"), &format!("the other string read {sent:?} instead of \"{SENTINEL}\" [{form}]"), replay); }
            else if !ok {
                let why = match got { Data::String(g) if g.is_empty() => "dropped", Data::String(g) if g.len() < s.len() => "shortened", Data::String(_) => "altered", _ => "not-a-string" };
                let f2: String = form.split(' ').take(3).collect::<Vec<_>>().join(" ");
                rep.fail(&format!("{fmt}/text-{why}/{class}/{f2}"), &format!("stored {s:?}, read {got:?} [{form}]"), replay);
            }
            hash_of(&(fmt, s))
        }
    };
    local.push((hash_of(&bytes), !ch.is_default(), outcome));
    if rep.want_sample() && ch.choices().iter().filter(|x| **x != 0).count() >= 2 && s.len() > 2 { rep.sample(json!({"format": fmt, "string": s, "form": form})); }
}

pub fn check(rep: &Report) {
    let t = crate::thorough(&rep.tier);
    // strings behind shared-string indices past the 16-bit boundary (families shared with C02 / C03)
    rayon::join(|| crate::props::c02::large_sst(rep), || crate::props::c03::large_sst(rep));
    rep.rule("strings = every concatenation of <= 3 atoms from {a, space, two spaces, tab, LF, &, <, >, \", ', ]]>, e-acute, euro, U+1F600} plus \"\", runs of 66 / 70 / 130 blanks, a CJK-only text and one 32767-character string; xls / xlsb tables of 255..66000 strings referenced past the 8- and 16-bit index boundaries; storage forms: xlsx shared/inline/formula-string x entities/decimal/hex character references/CDATA x {plain t, 1-3 rich runs, rPh + phoneticPr} x empty <si/> before/between x namespace prefix; xlsb Isst (plain/rich/phonetic)/St/FmlaString; xls SST (plain/rich/ExtRst)/LABEL/STRING x 8/16-bit; ods content with text:s variants, literal spaces, spans, paragraphs, or string-value attribute; full form product for strings of <= 2 atoms (thorough: 3), <= 1 deviation for 3-atom strings; non-trivial = non-default storage form or multi-atom string; distinct by file bytes");
    rep.assume("a cell holding the empty string may read as Empty or String(\"\"); in ods element content a tab is the text:tab element");
    let mut strings: Vec<String> = vec![String::new()];
    for a in ATOMS { strings.push(a.to_string()); }
    for a in ATOMS { for b in ATOMS { strings.push(format!("{a}{b}")); } }
    // long runs of blanks (a space element with a count of 65 and more), blanks only, and text whose characters all take three
    // bytes in UTF-8
    strings.push(format!("a{}b", " ".repeat(70))); strings.push(format!("{}x", " ".repeat(66))); strings.push(" ".repeat(130)); strings.push("\u{65e5}\u{672c}\u{8a9e}".into()); strings.push("\u{20ac}".into());
    let n_full = strings.len();
    for a in ATOMS { for b in ATOMS { for c in ATOMS { strings.push(format!("{a}{b}{c}")); } } }
    let long: String = "abcdefg \u{e9}".repeat(3640) + "zzzzzzz";
    assert_eq!(long.chars().count(), 32767);
    let mut jobs: Vec<(&str, usize)> = vec![];
    for f in FORMATS { for i in 0..strings.len() { if applicable(f, &strings[i]) { jobs.push((f, i)); } } }
    let stats = Mutex::new(Stats::default());
    jobs.par_iter().for_each(|(f, i)| {
        let s = &strings[*i];
        crate::engine::crumb::set_job(&format!("C19 format={f} string={s:?}"));
        let mut st = Stats::default();
        let mut local = vec![];
        if *i < n_full || t { explore_full(|ch| run_case(rep, ch, f, s, &mut local), &mut st, u64::MAX); }
        else { explore_deviations(|ch| run_case(rep, ch, f, s, &mut local), 1, &mut st); }
        rep.cases_bulk(&local);
        stats.lock().unwrap().merge(&st);
        crate::engine::crumb::clear();
    });
    for f in FORMATS {
        crate::engine::crumb::set_job(&format!("C19 format={f} 32767-character string"));
        let mut st = Stats::default();
        let mut local = vec![];
        explore_deviations(|ch| run_case(rep, ch, f, &long, &mut local), 1, &mut st);
        rep.cases_bulk(&local);
        stats.lock().unwrap().merge(&st);
        crate::engine::crumb::clear();
    }
    let st = stats.lock().unwrap();
    rep.add_states(st.nodes, st.edges);
    rep.trace(st.executions);
    rep.extra("strings", json!(strings.len() + 1));
    rep.extra("choice_labels_covered", st.label_summary());
    rep.exhaustive(true);
}

pub fn replay(path: &str) -> i32 {
    let Ok(s) = std::fs::read_to_string(path) else { return 2 };
    let v: serde_json::Value = serde_json::from_str(&s).unwrap();
    if v.get("large_sst").is_some() { return if v["files"][0].as_str().unwrap_or("").ends_with("xlsb") { crate::props::c03::replay(path) } else { crate::props::c02::replay(path) }; }
    let choices: Vec<u32> = v["choices"].as_array().unwrap().iter().map(|x| x.as_u64().unwrap() as u32).collect();
    let fmt = v["format"].as_str().unwrap().to_string();
    let st = v["string"].as_str().unwrap().to_string();
    let mut outs = vec![];
    for _ in 0..2 {
        let mut o = String::new();
        run_one(|ch| { let (bytes, form) = build(ch, &fmt, &st); o = format!("{form}: {:?}", guarded(|| read(&fmt, &bytes))); }, &choices);
        outs.push(o);
    }
    if outs[0] != outs[1] { eprintln!("MACHINERY: replay not deterministic"); return 2; }
    println!("stored {:?}\nrecorded: {}\nobserved now: {}", st, v["what"], outs[0]);
    0
}
