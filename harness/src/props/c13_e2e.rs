//! C13 end-to-end: one xls workbook with a VBA project (Workbook stream in the mini stream or in regular
//! sectors; dir / module / PROJECT streams) written in every physical layout must read as the same workbook.
use crate::engine::choice::{explore_deviations, explore_full, run_one, Chooser, Stats};
use crate::engine::report::{Replay, Report};
use crate::engine::{guarded, hash_of, normalise_site};
use crate::gen::ovba::*;
use crate::gen::{biff8, cfb};
use crate::model::sheet::range_digest;
use calamine::{Reader, Xls};
use serde_json::json;
use std::io::Cursor;
use std::sync::Mutex;

fn project() -> VProject {
    VProject { codepage: 1252, modules: vec![
        VModule { name: "Module1".into(), stream_name: "Module1".into(), source: b"Sub A()\r\n  MsgBox \"hi\"\r\nEnd Sub\r\n".to_vec(), text_offset: 0, mode: 0, class_module: false, read_only: false, private: false },
        VModule { name: "Big".into(), stream_name: "Big".into(), source: (0..9000u32).map(|i| b"Rem line of a long module\r\n"[(i % 27) as usize]).collect(), text_offset: 7, mode: 0, class_module: true, read_only: false, private: false },
        // a module that does not compress: its stream is larger than 4096 bytes and lives in regular sectors, next to the workbook's
        VModule { name: "Blob".into(), stream_name: "Blob".into(), source: { let mut x = 0x1234_5678u32; (0..6000).map(|_| { x ^= x << 13; x ^= x >> 17; x ^= x << 5; 0x21 + (x % 90) as u8 }).collect() }, text_offset: 0, mode: 2, class_module: false, read_only: false, private: false },
    ], refs: vec![VRef { name: "stdole".into(), kind: RefKind::Registered }], compat_version: false, descriptive: false }
}

fn build(ch: &mut Chooser) -> (Vec<u8>, String) {
    let big_workbook = ch.flag("workbook-stream-over-4096-bytes");
    let mut cells = vec![biff8::BCell::Number { r: 0, c: 0, xf: 0, v: 1.5 }, biff8::BCell::Label { r: 1, c: 1, xf: 0, text: "layout".into(), wide: false }];
    if big_workbook { for r in 2..400u16 { cells.push(biff8::BCell::Number { r, c: 0, xf: 0, v: r as f64 }); } }
    let stream = biff8::workbook_stream(&biff8::BBook { sheets: vec![biff8::BSheet::new("S", cells)], ..Default::default() });
    // a dual-format file also carries a BIFF5 `Book` stream (here with other content): `Workbook` is the one to read,
    // wherever the two entries sit in the directory
    let mut e = vec![];
    let book = ch.flag("also-a-Book-stream-listed-before-Workbook");
    if book { e.push(cfb::Entry::stream("Book", biff8::workbook_stream(&biff8::BBook { sheets: vec![biff8::BSheet::new("S", vec![biff8::BCell::Number { r: 0, c: 0, xf: 0, v: 99.0 }])], ..Default::default() }), None)); }
    e.push(cfb::Entry::stream("Workbook", stream, None));
    e.extend(project_entries(&project(), true, if book { 2 } else { 1 }));
    let lay = crate::props::c13::choose_layout(ch);
    (cfb::write(&e, &lay), format!("big_workbook={big_workbook} {lay:?}"))
}

fn observe(bytes: &[u8]) -> Result<String, String> {
    let mut wb: Xls<_> = Xls::new(Cursor::new(bytes.to_vec())).map_err(|e| format!("open: {e:?}"))?;
    let r = wb.worksheet_range("S").map_err(|e| format!("range: {e:?}"))?;
    let v = match wb.vba_project() { Some(Ok(v)) => v, Some(Err(e)) => return Err(format!("vba: {e:?}")), None => return Err("no vba project".into()) };
    let mut mods = vec![];
    for n in v.get_module_names() { mods.push((n.to_string(), hash_of(&v.get_module_raw(n).map_err(|e| format!("{e:?}"))?.to_vec()))); }
    Ok(format!("{} | {:?} | {:?}", hash_of(&range_digest(&r)), mods, v.get_references().iter().map(|r| r.name.clone()).collect::<Vec<_>>()))
}

/// Real workbook streams in fresh containers: the Workbook / Book stream of every xls fixture of the repository is taken out
/// (through the reader under test) and wrapped into new compound files of 24 layouts by the independent writer; each must read as
/// the same sheets and cells as the fixture itself ("two containers holding the same streams read as the same workbook").
fn corpus_recontainer(rep: &Report) {
    use rayon::prelude::*;
    let files = crate::props::corpus::fixtures(&["xls", "xla"]);
    let wrapped = std::sync::atomic::AtomicU64::new(0);
    let all = |bytes: &[u8]| -> Result<String, String> {
        let mut wb: Xls<_> = Xls::new(Cursor::new(bytes.to_vec())).map_err(|e| format!("open: {e:?}"))?;
        let mut out = String::new();
        for n in wb.sheet_names() { out.push_str(&format!("{n:?}={:?};", wb.worksheet_range(&n).map(|r| range_digest(&r)).map_err(|e| format!("{e:?}").chars().take(40).collect::<String>()))); }
        Ok(out)
    };
    files.par_iter().for_each(|(fname, bytes)| {
        crate::engine::crumb::set_case(&format!("C13 fixture {fname}"));
        let Ok(Ok(orig)) = guarded(|| all(bytes)) else { return };
        let Ok(Ok(streams)) = guarded(|| calamine::verif::cfb::get_streams(bytes, &["Workbook", "Book"])) else { return };
        let (name, stream) = match (&streams[0], &streams[1]) { (Ok(s), _) => ("Workbook", s.clone()), (_, Ok(s)) => ("Book", s.clone()), _ => return };
        for v4 in [false, true] { for order in [cfb::Order::Sequential, cfb::Order::Reversed, cfb::Order::Interleaved, cfb::Order::Perm(3)] { for mini_order in [cfb::Order::Sequential, cfb::Order::Reversed, cfb::Order::Perm(4)] {
            let lay = cfb::Layout { v4, order, mini_order, unused_dir_entries: if v4 { 1 } else { 0 }, free_sectors: 1, ..Default::default() };
            let file = cfb::simple(&[(name, stream.clone())], &lay);
            rep.eval(1);
            wrapped.fetch_add(1, std::sync::atomic::Ordering::Relaxed);
            let got = guarded(|| all(&file));
            rep.case(hash_of(&(fname, format!("{lay:?}"))), true, hash_of(&format!("{got:?}")));
            if !matches!(&got, Ok(Ok(g)) if *g == orig) {
                rep.fail("corpus/recontainered-workbook-differs", &format!("{fname}: its {name} stream ({} bytes) in a fresh container ({lay:?}) reads {}, the fixture reads {}", stream.len(), format!("{got:?}").chars().take(200).collect::<String>(), orig.chars().take(200).collect::<String>()), || Replay { json: json!({"fixture": fname, "layout": format!("{lay:?}")}), files: vec![("xls".into(), file.clone())] });
                return;
            }
        } } }
        crate::engine::crumb::clear();
    });
    rep.extra("fixture_workbook_streams_recontainered", json!(files.len()));
    rep.extra("fixture_containers_written", json!(wrapped.load(std::sync::atomic::Ordering::Relaxed)));
}

pub fn check(rep: &Report, stats: &Mutex<Stats>) {
    corpus_recontainer(rep);
    let t = crate::thorough(&rep.tier);
    // reference observation: default layout, both workbook sizes
    let mut reference: Vec<Option<String>> = vec![None, None];
    for big in 0..2u32 {
        run_one(|ch| { let (b, _) = build(ch); reference[big as usize] = guarded(|| observe(&b)).ok().and_then(|r| r.ok()); }, &[big]);
    }
    let mut st = Stats::default();
    let mut local = vec![];
    crate::engine::crumb::set_job("C13 end-to-end xls+VBA under every layout");
    let mut case = |ch: &mut Chooser| {
        let (bytes, desc) = build(ch);
        rep.eval(1);
        let big = ch.choices().first().copied().unwrap_or(0) as usize;
        let got = guarded(|| observe(&bytes));
        let exp = reference[big].clone();
        let ok = matches!((&got, &exp), (Ok(Ok(g)), Some(e)) if g == e);
        if !ok {
            let kind = match &got { Ok(Ok(_)) => "workbook-differs".to_string(), Ok(Err(e)) => format!("error/{}", e.split('(').next().unwrap_or("")), Err(p) => format!("panic/{}", normalise_site(p.rsplit(" @ ").next().unwrap_or(""))) };
            rep.fail(&format!("e2e/{kind}"), &format!("{desc}: read {got:?}, the default layout reads {exp:?}"), || Replay { json: json!({"e2e_choices": ch.choices(), "case": desc}), files: vec![("xls".into(), bytes.clone())] });
        }
        local.push((hash_of(&bytes), !ch.is_default(), hash_of(&format!("{got:?}"))));
    };
    if t { explore_full(&mut case, &mut st, u64::MAX); } else { explore_deviations(&mut case, 2, &mut st); }
    rep.cases_bulk(&local);
    rep.extra("end_to_end_xls_vba_files", serde_json::json!(st.executions));
    stats.lock().unwrap().merge(&st);
    crate::engine::crumb::clear();
}

pub fn replay(v: &serde_json::Value) -> i32 {
    let choices: Vec<u32> = v["e2e_choices"].as_array().map(|a| a.iter().map(|x| x.as_u64().unwrap() as u32).collect()).unwrap_or_default();
    let mut o = String::new();
    run_one(|ch| { let (b, d) = build(ch); o = format!("{d}: {:?}", guarded(|| observe(&b))); }, &choices);
    println!("recorded: {}\nobserved now: {o}", v["what"]);
    0
}
