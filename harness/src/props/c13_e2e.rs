//! C13 end-to-end: one xls workbook with a VBA project (Workbook stream in the mini stream or in regular
//! sectors; dir / module / PROJECT streams) written in every physical layout must read as the same workbook.
use crate::engine::choice::{explore_deviations, explore_full, run_one, Chooser, Stats};
use crate::engine::report::{Replay, Report};
use crate::engine::{guarded, hash_of, normalise_site};
use crate::gen::ovba::*;
use crate::gen::{biff8, cfb};
use crate::model::sheet::range_digest;
use calamine::{Reader, Xls};
use serde_json::json;
use std::io::Cursor;
use std::sync::Mutex;

fn project() -> VProject {
    VProject { codepage: 1252, modules: vec![
        VModule { name: "Module1".into(), stream_name: "Module1".into(), source: b"Sub A()\r\n  MsgBox \"hi\"\r\nEnd Sub\r\n".to_vec(), text_offset: 0, mode: 0, class_module: false, read_only: false, private: false },
        VModule { name: "Big".into(), stream_name: "Big".into(), source: (0..9000u32).map(|i| b"Rem line of a long module\r\n"[(i % 27) as usize]).collect(), text_offset: 7, mode: 0, class_module: true, read_only: false, private: false },
    ], refs: vec![VRef { name: "stdole".into(), kind: RefKind::Registered }], compat_version: false, descriptive: false }
}

fn build(ch: &mut Chooser) -> (Vec<u8>, String) {
    let big_workbook = ch.flag("workbook-stream-over-4096-bytes");
    let mut cells = vec![biff8::BCell::Number { r: 0, c: 0, xf: 0, v: 1.5 }, biff8::BCell::Label { r: 1, c: 1, xf: 0, text: "layout".into(), wide: false }];
    if big_workbook { for r in 2..400u16 { cells.push(biff8::BCell::Number { r, c: 0, xf: 0, v: r as f64 }); } }
    let stream = biff8::workbook_stream(&biff8::BBook { sheets: vec![biff8::BSheet::new("S", cells)], ..Default::default() });
    // a dual-format file also carries a BIFF5 `Book` stream (here with other content): `Workbook` is the one to read,
    // wherever the two entries sit in the directory
    let mut e = vec![];
    let book = ch.flag("also-a-Book-stream-listed-before-Workbook");
    if book { e.push(cfb::Entry::stream("Book", biff8::workbook_stream(&biff8::BBook { sheets: vec![biff8::BSheet::new("S", vec![biff8::BCell::Number { r: 0, c: 0, xf: 0, v: 99.0 }])], ..Default::default() }), None)); }
    e.push(cfb::Entry::stream("Workbook", stream, None));
    e.extend(project_entries(&project(), true, if book { 2 } else { 1 }));
    let lay = crate::props::c13::choose_layout(ch);
    (cfb::write(&e, &lay), format!("big_workbook={big_workbook} {lay:?}"))
}

fn observe(bytes: &[u8]) -> Result<String, String> {
    let mut wb: Xls<_> = Xls::new(Cursor::new(bytes.to_vec())).map_err(|e| format!("open: {e:?}"))?;
    let r = wb.worksheet_range("S").map_err(|e| format!("range: {e:?}"))?;
    let v = match wb.vba_project() { Some(Ok(v)) => v, Some(Err(e)) => return Err(format!("vba: {e:?}")), None => return Err("no vba project".into()) };
    let mut mods = vec![];
    for n in v.get_module_names() { mods.push((n.to_string(), hash_of(&v.get_module_raw(n).map_err(|e| format!("{e:?}"))?.to_vec()))); }
    Ok(format!("{} | {:?} | {:?}", hash_of(&range_digest(&r)), mods, v.get_references().iter().map(|r| r.name.clone()).collect::<Vec<_>>()))
}

pub fn check(rep: &Report, stats: &Mutex<Stats>) {
    let t = crate::thorough(&rep.tier);
    // reference observation: default layout, both workbook sizes
    let mut reference: Vec<Option<String>> = vec![None, None];
    for big in 0..2u32 {
        run_one(|ch| { let (b, _) = build(ch); reference[big as usize] = guarded(|| observe(&b)).ok().and_then(|r| r.ok()); }, &[big]);
    }
    let mut st = Stats::default();
    let mut local = vec![];
    crate::engine::crumb::set_job("C13 end-to-end xls+VBA under every layout");
    let mut case = |ch: &mut Chooser| {
        let (bytes, desc) = build(ch);
        rep.eval(1);
        let big = ch.choices().first().copied().unwrap_or(0) as usize;
        let got = guarded(|| observe(&bytes));
        let exp = reference[big].clone();
        let ok = matches!((&got, &exp), (Ok(Ok(g)), Some(e)) if g == e);
        if !ok {
            let kind = match &got { Ok(Ok(_)) => "workbook-differs".to_string(), Ok(Err(e)) => format!("error/{}", e.split('(').next().unwrap_or("")), Err(p) => format!("panic/{}", normalise_site(p.rsplit(" @ ").next().unwrap_or(""))) };
            rep.fail(&format!("e2e/{kind}"), &format!("{desc}: read {got:?}, the default layout reads {exp:?}"), || Replay { json: json!({"e2e_choices": ch.choices(), "case": desc}), files: vec![("xls".into(), bytes.clone())] });
        }
        local.push((hash_of(&bytes), !ch.is_default(), hash_of(&format!("{got:?}"))));
    };
    if t { explore_full(&mut case, &mut st, u64::MAX); } else { explore_deviations(&mut case, 2, &mut st); }
    rep.cases_bulk(&local);
    rep.extra("end_to_end_xls_vba_files", serde_json::json!(st.executions));
    stats.lock().unwrap().merge(&st);
    crate::engine::crumb::clear();
}

pub fn replay(v: &serde_json::Value) -> i32 {
    let choices: Vec<u32> = v["e2e_choices"].as_array().map(|a| a.iter().map(|x| x.as_u64().unwrap() as u32).collect()).unwrap_or_default();
    let mut o = String::new();
    run_one(|ch| { let (b, d) = build(ch); o = format!("{d}: {:?}", guarded(|| observe(&b))); }, &choices);
    println!("recorded: {}\nobserved now: {o}", v["what"]);
    0
}
