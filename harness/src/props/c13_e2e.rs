//! C13 end-to-end part (filled in once the BIFF8 writer exists): one workbook, every layout.
use crate::engine::choice::Stats;
use crate::engine::report::Report;
use std::sync::Mutex;

pub fn check(_rep: &Report, _stats: &Mutex<Stats>) {}
pub fn replay(_v: &serde_json::Value) -> i32 { 0 }
