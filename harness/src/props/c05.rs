//! C05 — Range stays a consistent rectangle under every sequence of operations.
//! E2: explicit-state BFS over *real* `Range<T>` objects inside a small coordinate box, to closure.
use crate::engine::report::{Replay, Report};
use crate::engine::{guarded, hash_of};
use calamine::{Cell, CellType, Data, Range};
use serde_json::json;
use std::collections::{BTreeMap, HashMap};
use std::fmt::Debug;

type P = (u32, u32);

#[derive(Clone, Debug, PartialEq)]
struct Model {
    empty: bool,
    start: P,
    end: P,
    cells: BTreeMap<P, u8>, // non-default values only, absolute positions
}

impl Model {
    fn h(&self) -> usize { if self.empty { 0 } else { (self.end.0 - self.start.0 + 1) as usize } }
    fn w(&self) -> usize { if self.empty { 0 } else { (self.end.1 - self.start.1 + 1) as usize } }
    fn at(&self, p: P) -> u8 { *self.cells.get(&p).unwrap_or(&0) }
    fn contains(&self, p: P) -> bool {
        !self.empty && p.0 >= self.start.0 && p.0 <= self.end.0 && p.1 >= self.start.1 && p.1 <= self.end.1
    }
}

#[derive(Clone, Debug)]
enum Op {
    Empty,
    New(P, P),
    FromSparse(Vec<(P, u8)>),
    Set(P, u8),
    Sub(P, P),
}

impl Op {
    fn js(&self) -> serde_json::Value {
        match self {
            Op::Empty => json!({"op":"empty"}),
            Op::New(s, e) => json!({"op":"new","start":s,"end":e}),
            Op::FromSparse(c) => json!({"op":"from_sparse","cells":c}),
            Op::Set(p, v) => json!({"op":"set_value","pos":p,"val":v}),
            Op::Sub(s, e) => json!({"op":"range","start":s,"end":e}),
        }
    }
    fn from_js(v: &serde_json::Value) -> Op {
        let p = |x: &serde_json::Value| -> P { (x[0].as_u64().unwrap() as u32, x[1].as_u64().unwrap() as u32) };
        match v["op"].as_str().unwrap() {
            "empty" => Op::Empty,
            "new" => Op::New(p(&v["start"]), p(&v["end"])),
            "from_sparse" => Op::FromSparse(
                v["cells"].as_array().unwrap().iter().map(|c| (p(&c[0]), c[1].as_u64().unwrap() as u8)).collect(),
            ),
            "set_value" => Op::Set(p(&v["pos"]), v["val"].as_u64().unwrap() as u8),
            _ => Op::Sub(p(&v["start"]), p(&v["end"])),
        }
    }
}

/// Value domain: code 0 is `T::default()`.
trait Dom: CellType + Debug {
    fn val(code: u8) -> Self;
    fn code(&self) -> u8;
    const NAME: &'static str;
}
impl Dom for usize {
    fn val(c: u8) -> usize { c as usize }
    fn code(&self) -> u8 { *self as u8 }
    const NAME: &'static str = "usize";
}
impl Dom for Data {
    fn val(c: u8) -> Data {
        match c { 0 => Data::Empty, 1 => Data::Int(7), _ => Data::String("a".into()) }
    }
    fn code(&self) -> u8 {
        match self { Data::Empty => 0, Data::Int(7) => 1, Data::String(s) if s == "a" => 2, _ => 250 }
    }
    const NAME: &'static str = "Data";
}
impl Dom for String {
    fn val(c: u8) -> String {
        match c { 0 => String::new(), 1 => "x".into(), _ => "yy".into() }
    }
    fn code(&self) -> u8 {
        match self.as_str() { "" => 0, "x" => 1, "yy" => 2, _ => 250 }
    }
    const NAME: &'static str = "String";
}

/// Every observation the property talks about, compared with the model. Returns the name of the
/// first invariant that fails.
fn check_state<T: Dom>(r: &Range<T>, m: &Model, probe: &[P]) -> Result<(), String> {
    let (h, w) = (m.h(), m.w());
    if r.is_empty() != m.empty { return Err(format!("is_empty={} expected {}", r.is_empty(), m.empty)); }
    let (es, ee) = if m.empty { (None, None) } else { (Some(m.start), Some(m.end)) };
    if r.start() != es { return Err(format!("start={:?} expected {:?}", r.start(), es)); }
    if r.end() != ee { return Err(format!("end={:?} expected {:?}", r.end(), ee)); }
    if r.height() != h || r.width() != w || r.get_size() != (h, w) {
        return Err(format!("size=({},{}) get_size={:?} expected ({h},{w})", r.height(), r.width(), r.get_size()));
    }
    // cells(): exactly h*w, row-major, right relative coordinates, right values
    let cells: Vec<(usize, usize, &T)> = r.cells().collect();
    if cells.len() != h * w || r.cells().len() != h * w {
        return Err(format!("cells.len={} expected h*w={}", cells.len(), h * w));
    }
    for (i, (cr, cc, v)) in cells.iter().enumerate() {
        if *cr != i / w || *cc != i % w { return Err(format!("cells.coord[{i}]=({cr},{cc})")); }
        let abs = (m.start.0 + *cr as u32, m.start.1 + *cc as u32);
        if v.code() != m.at(abs) { return Err(format!("cells.value at {abs:?} = {:?} expected code {}", v, m.at(abs))); }
    }
    // rows(): h rows of w
    let rows: Vec<&[T]> = r.rows().collect();
    if rows.len() != h || r.rows().len() != h { return Err(format!("rows.count={} expected {h}", rows.len())); }
    for (i, row) in rows.iter().enumerate() {
        if row.len() != w { return Err(format!("rows[{i}].len={} expected {w}", row.len())); }
        for (j, v) in row.iter().enumerate() {
            let abs = (m.start.0 + i as u32, m.start.1 + j as u32);
            if v.code() != m.at(abs) { return Err(format!("rows.value at {abs:?}")); }
        }
    }
    // used_cells(): exactly the non-default ones, in order
    let used: Vec<(P, u8)> = r.used_cells().map(|(a, b, v)| ((m.start.0 + a as u32, m.start.1 + b as u32), v.code())).collect();
    let exp: Vec<(P, u8)> = m.cells.iter().filter(|(p, _)| m.contains(**p)).map(|(p, v)| (*p, *v)).collect();
    if used != exp { return Err(format!("used_cells={used:?} expected {exp:?}")); }
    // the three iterators are double-ended and exact-sized: consumed from the back, and from both ends alternately,
    // they yield the same items as from the front
    {
        let fwd: Vec<(usize, usize, u8)> = cells.iter().map(|(a, b, v)| (*a, *b, v.code())).collect();
        let mut back: Vec<(usize, usize, u8)> = r.cells().rev().map(|(a, b, v)| (a, b, v.code())).collect(); back.reverse();
        if back != fwd { return Err("cells.rev differs from cells".to_string()); }
        let mut it = r.cells(); let (mut f, mut bk) = (vec![], vec![]);
        loop { match it.next() { Some((a, b, v)) => f.push((a, b, v.code())), None => break } match it.next_back() { Some((a, b, v)) => bk.push((a, b, v.code())), None => break } if it.len() + f.len() + bk.len() != h * w { return Err("cells.len while consuming from both ends".to_string()); } }
        bk.reverse(); f.extend(bk);
        if f != fwd { return Err("cells consumed from both ends differ from cells".to_string()); }
        let rfwd: Vec<Vec<u8>> = rows.iter().map(|row| row.iter().map(|v| v.code()).collect()).collect();
        let mut rback: Vec<Vec<u8>> = r.rows().rev().map(|row| row.iter().map(|v| v.code()).collect()).collect(); rback.reverse();
        if rback != rfwd { return Err("rows.rev differs from rows".to_string()); }
        let mut it = r.rows(); let (mut f, mut bk): (Vec<Vec<u8>>, Vec<Vec<u8>>) = (vec![], vec![]);
        loop { match it.next_back() { Some(row) => bk.push(row.iter().map(|v| v.code()).collect()), None => break } match it.next() { Some(row) => f.push(row.iter().map(|v| v.code()).collect()), None => break } }
        bk.reverse(); f.extend(bk);
        if f != rfwd { return Err("rows consumed from both ends differ from rows".to_string()); }
        let mut uback: Vec<(P, u8)> = r.used_cells().rev().map(|(a, b, v)| ((m.start.0 + a as u32, m.start.1 + b as u32), v.code())).collect(); uback.reverse();
        if uback != used { return Err(format!("used_cells.rev={uback:?} expected {used:?}")); }
    }
    // get / get_value / Index agree with each other and the model
    for i in 0..h + 1 {
        for j in 0..w + 1 {
            let g = r.get((i, j));
            let inside = i < h && j < w;
            if g.is_some() != inside { return Err(format!("get(({i},{j})).is_some()={}", g.is_some())); }
            if inside {
                let abs = (m.start.0 + i as u32, m.start.1 + j as u32);
                let c = m.at(abs);
                if g.unwrap().code() != c { return Err(format!("get value at {abs:?}")); }
                if r[(i, j)].code() != c { return Err(format!("index (r,c) value at {abs:?}")); }
                if r[i][j].code() != c || r[i].len() != w { return Err(format!("index row value at {abs:?}")); }
                if r.get_value(abs).map(|v| v.code()) != Some(c) { return Err(format!("get_value at {abs:?}")); }
            }
        }
    }
    for p in probe {
        let gv = r.get_value(*p).map(|v| v.code());
        let ex = if m.contains(*p) { Some(m.at(*p)) } else { None };
        if gv != ex { return Err(format!("get_value({p:?})={gv:?} expected {ex:?}")); }
    }
    Ok(())
}

fn apply_ctor<T: Dom>(op: &Op) -> (Range<T>, Vec<Model>) {
    match op {
        Op::Empty => (Range::empty(), vec![Model { empty: true, start: (0, 0), end: (0, 0), cells: BTreeMap::new() }]),
        Op::New(s, e) => (Range::new(*s, *e), vec![Model { empty: false, start: *s, end: *e, cells: BTreeMap::new() }]),
        Op::FromSparse(cs) => {
            let r = Range::from_sparse(cs.iter().map(|(p, v)| Cell::new(*p, T::val(*v))).collect());
            let m = if cs.is_empty() {
                Model { empty: true, start: (0, 0), end: (0, 0), cells: BTreeMap::new() }
            } else {
                let s = (cs.iter().map(|c| c.0 .0).min().unwrap(), cs.iter().map(|c| c.0 .1).min().unwrap());
                let e = (cs.iter().map(|c| c.0 .0).max().unwrap(), cs.iter().map(|c| c.0 .1).max().unwrap());
                Model { empty: false, start: s, end: e, cells: cs.iter().filter(|c| c.1 != 0).cloned().collect() }
            };
            (r, vec![m])
        }
        _ => unreachable!(),
    }
}

/// Successor model of `op` applied in model state `m`.
fn model_step(m: &Model, op: &Op) -> Vec<Model> {
    match op {
        Op::Set(p, v) => {
            let mut out = vec![];
            // an empty range has no rectangle: the bounding box of nothing and p is the single cell p
            let starts: Vec<P> = if m.empty { vec![*p] } else { vec![m.start] };
            for s in starts {
                let mut n = m.clone();
                if m.empty {
                    n.start = s;
                    n.end = *p;
                    n.empty = false;
                } else {
                    n.end = (m.end.0.max(p.0), m.end.1.max(p.1));
                }
                if *v == 0 { n.cells.remove(p); } else { n.cells.insert(*p, *v); }
                if !out.contains(&n) { out.push(n); }
            }
            out
        }
        Op::Sub(s, e) => {
            let n = Model {
                empty: false,
                start: *s,
                end: *e,
                cells: m
                    .cells
                    .iter()
                    .filter(|(p, _)| m.contains(**p) && p.0 >= s.0 && p.0 <= e.0 && p.1 >= s.1 && p.1 <= e.1)
                    .map(|(p, v)| (*p, *v))
                    .collect(),
            };
            vec![n]
        }
        _ => unreachable!(),
    }
}

fn op_class(m: &Model, op: &Op) -> String {
    match op {
        Op::Empty => "empty".into(),
        Op::New(..) => "new".into(),
        Op::FromSparse(_) => "from_sparse".into(),
        Op::Set(p, _) => {
            if m.empty { "set_value/on-empty".into() } else {
                match (p.0 > m.end.0, p.1 > m.end.1) {
                    (false, false) => "set_value/inside".into(),
                    (true, false) => "set_value/grow-rows".into(),
                    (false, true) => "set_value/grow-cols".into(),
                    (true, true) => "set_value/grow-both".into(),
                }
            }
        }
        Op::Sub(s, e) => {
            if m.empty { "range/of-empty".into() }
            else if s.0 > m.end.0 || e.0 < m.start.0 || s.1 > m.end.1 || e.1 < m.start.1 { "range/disjoint".into() }
            else { "range/overlap".into() }
        }
    }
}

fn inv_name(e: &str) -> &str {
    e.split(|c: char| c == '=' || c == ' ' || c == '[' || c == '(').next().unwrap_or(e)
}

struct Node { parent: usize, op: Op }

fn key_of<T: Dom>(r: &Range<T>) -> u64 {
    let cells: Vec<u8> = r.cells().map(|c| c.2.code()).collect();
    hash_of(&(r.is_empty(), r.start(), r.end(), cells))
}

fn path_to(nodes: &[Node], mut i: usize) -> Vec<serde_json::Value> {
    let mut v = vec![];
    loop {
        v.push(nodes[i].op.js());
        if nodes[i].parent == usize::MAX { break; }
        i = nodes[i].parent;
    }
    v.reverse();
    v
}

fn all_rects(lo: P, g: u32) -> Vec<(P, P)> {
    let mut v = vec![];
    for r0 in 0..g { for r1 in r0..g { for c0 in 0..g { for c1 in c0..g {
        v.push(((lo.0 + r0, lo.1 + c0), (lo.0 + r1, lo.1 + c1)));
    }}}}
    v
}

/// Closure of the reachable state set inside the box [lo, lo+g)².
fn bfs<T: Dom>(rep: &Report, lo: P, g: u32, nvals: u8, sparse_max: usize) {
    let positions: Vec<P> = (0..g).flat_map(|r| (0..g).map(move |c| (lo.0 + r, lo.1 + c))).collect();
    let mut probe = positions.clone();
    probe.push((lo.0 + g, lo.1));
    probe.push((lo.0, lo.1 + g));
    if lo.0 > 0 { probe.push((lo.0 - 1, lo.1)); }
    if lo.1 > 0 { probe.push((lo.0, lo.1 - 1)); }
    let rects = all_rects(lo, g);

    // initial states
    let mut inits: Vec<Op> = vec![Op::Empty];
    for (s, e) in &rects { inits.push(Op::New(*s, *e)); }
    // from_sparse: all row-sorted lists of <= sparse_max cells at distinct positions, all values (incl. default)
    fn rec(cur: &mut Vec<(P, u8)>, positions: &[P], nvals: u8, max: usize, out: &mut Vec<Op>) {
        out.push(Op::FromSparse(cur.clone()));
        if cur.len() == max { return; }
        let min_row = cur.last().map(|c| c.0 .0).unwrap_or(0);
        for p in positions {
            if p.0 < min_row || cur.iter().any(|c| c.0 == *p) { continue; }
            for v in 0..nvals {
                cur.push((*p, v));
                rec(cur, positions, nvals, max, out);
                cur.pop();
            }
        }
    }
    rec(&mut vec![], &positions, nvals, sparse_max, &mut inits);
    // from_sparse on dense input: every rectangle of 3..6 cells given completely, rows in order but the columns of each row in
    // every order (the precondition only asks for row-sorted cells); values alternate so that a misplaced cell shows
    for (s, e) in &rects {
        let (h, w) = ((e.0 - s.0 + 1) as usize, (e.1 - s.1 + 1) as usize);
        if h * w < 3 || h * w > 6 || w < 2 { continue; }
        fn perms(n: usize) -> Vec<Vec<usize>> { if n == 1 { return vec![vec![0]]; } let mut out = vec![]; for p in perms(n - 1) { for i in 0..n { let mut q = p.clone(); q.insert(i, n - 1); out.push(q); } } out }
        let pw = perms(w);
        let mut idx = vec![0usize; h];
        loop {
            let mut cells = vec![];
            for r in 0..h { for c in &pw[idx[r]] { let k = r * w + *c; cells.push(((s.0 + r as u32, s.1 + *c as u32), (k % nvals as usize) as u8)); } }
            inits.push(Op::FromSparse(cells));
            let mut r = 0; loop { if r == h { break; } idx[r] += 1; if idx[r] < pw.len() { break; } idx[r] = 0; r += 1; }
            if r == h { break; }
        }
    }

    let mut nodes: Vec<Node> = vec![];
    let mut states: Vec<(Range<T>, Model)> = vec![];
    let mut seen: HashMap<u64, usize> = HashMap::new();
    let mut transitions = 0u64;
    let mut frontier: std::collections::VecDeque<usize> = Default::default();
    let mut depth: Vec<u32> = vec![];
    let mut max_depth = 0;

    let mut report_fail = |rep: &Report, nodes: &[Node], parent: usize, op: &Op, m: &Model, err: String| {
        let key = format!("{}/{}", op_class(m, op), inv_name(&err));
        let mut path = if parent == usize::MAX { vec![] } else { path_to(nodes, parent) };
        path.push(op.js());
        rep.fail(&key, &format!("after {} : {}", op.js(), err), || Replay {
            json: json!({"domain": T::NAME, "ops": path, "error": err}),
            files: vec![],
        });
    };

    for op in inits {
        transitions += 1;
        let res = guarded(|| apply_ctor::<T>(&op));
        let dummy = Model { empty: true, start: (0, 0), end: (0, 0), cells: BTreeMap::new() };
        match res {
            Err(p) => report_fail(rep, &nodes, usize::MAX, &op, &dummy, format!("panic {p}")),
            Ok((r, ms)) => {
                let m = ms.into_iter().next().unwrap();
                match guarded(|| check_state(&r, &m, &probe)) {
                    Err(p) => report_fail(rep, &nodes, usize::MAX, &op, &dummy, format!("panic-in-accessor {p}")),
                    Ok(Err(e)) => report_fail(rep, &nodes, usize::MAX, &op, &dummy, e),
                    Ok(Ok(())) => {
                        let k = key_of(&r);
                        if !seen.contains_key(&k) {
                            seen.insert(k, states.len());
                            frontier.push_back(states.len());
                            states.push((r, m));
                            nodes.push(Node { parent: usize::MAX, op });
                            depth.push(0);
                        }
                    }
                }
            }
        }
    }
    let n_init = states.len();

    while let Some(i) = frontier.pop_front() {
        let (r0, m0) = (states[i].0.clone(), states[i].1.clone());
        crate::engine::crumb::set_case(&format!("C05 {} lo={lo:?} g={g} expanding state {:?}", T::NAME, m0));
        let mut ops: Vec<Op> = vec![];
        for p in &positions {
            if m0.empty || (p.0 >= m0.start.0 && p.1 >= m0.start.1) {
                for v in 0..nvals { ops.push(Op::Set(*p, v)); }
            }
        }
        for (s, e) in &rects { ops.push(Op::Sub(*s, *e)); }
        for op in ops {
            transitions += 1;
            let res = guarded(|| match &op {
                Op::Set(p, v) => { let mut r = r0.clone(); r.set_value(*p, T::val(*v)); r }
                Op::Sub(s, e) => r0.range(*s, *e),
                _ => unreachable!(),
            });
            let r = match res {
                Err(p) => { report_fail(rep, &nodes, i, &op, &m0, format!("panic {p}")); continue; }
                Ok(r) => r,
            };
            let cands = model_step(&m0, &op);
            let mut last_err = String::new();
            let mut okm = None;
            for m in cands {
                match guarded(|| check_state(&r, &m, &probe)) {
                    Err(p) => { last_err = format!("panic-in-accessor {p}"); }
                    Ok(Err(e)) => { if last_err.is_empty() { last_err = e; } }
                    Ok(Ok(())) => { okm = Some(m); break; }
                }
            }
            let Some(m) = okm else { report_fail(rep, &nodes, i, &op, &m0, last_err); continue; };
            // the source of range() / a clone must be untouched
            if let Op::Sub(..) = op {
                if key_of(&r0) != key_of(&states[i].0) { report_fail(rep, &nodes, i, &op, &m0, "source-modified".into()); }
            }
            let k = key_of(&r);
            if !seen.contains_key(&k) {
                seen.insert(k, states.len());
                frontier.push_back(states.len());
                states.push((r, m));
                nodes.push(Node { parent: i, op });
                depth.push(depth[i] + 1);
                max_depth = max_depth.max(depth[i] + 1);
            }
        }
    }
    crate::engine::crumb::clear();
    rep.add_states(states.len() as u64, transitions);
    rep.eval(transitions);
    rep.trace(transitions);
    for (idx, (r, _)) in states.iter().enumerate() {
        rep.case(key_of(r) ^ hash_of(&(lo, T::NAME)), nodes[idx].parent != usize::MAX, key_of(r));
    }
    rep.extra(
        &format!("bfs[{} lo={:?} g={} vals={}]", T::NAME, lo, g, nvals),
        json!({"states": states.len(), "initial_states": n_init, "transitions": transitions, "max_depth": max_depth}),
    );
    if rep.want_sample() && states.len() > 1 {
        let pick = (Report::seed().unsigned_abs() as usize * 7919 + states.len() / 2) % states.len();
        rep.sample(json!({"domain": T::NAME, "ops": path_to(&nodes, pick), "reached": format!("{:?}", states[pick].1)}));
        rep.sample(json!({"domain": T::NAME, "ops": path_to(&nodes, states.len() - 1)}));
    }
}

pub fn check(rep: &Report) {
    rep.rule("explicit-state BFS to closure over real Range<T> objects in a g x g coordinate box: initial states = empty(), every new(s,e), every row-sorted from_sparse list; transitions = every set_value(p>=start, v) and every range(s,e); a state is (is_empty,start,end,cell codes); non-trivial = reached by at least one transition (not an initial state); every state checked against a map model through all read accessors");
    rep.assume("coordinates restricted to the listed boxes; values to 2-3 codes per cell type (0 = T::default())");
    rep.assume("set_value on an empty range gives the single cell at that position (the bounding box of no rectangle and p)");
    let t = crate::thorough(&rep.tier);
    let jobs: Vec<Box<dyn Fn(&Report) + Send + Sync>> = if !t {
        vec![
            Box::new(|r| bfs::<usize>(r, (0, 0), 3, 3, 2)),
            Box::new(|r| bfs::<usize>(r, (2, 1), 3, 2, 3)),
            Box::new(|r| bfs::<Data>(r, (1, 0), 3, 2, 2)),
            Box::new(|r| bfs::<String>(r, (0, 3), 2, 3, 2)),
        ]
    } else {
        vec![
            Box::new(|r| bfs::<usize>(r, (0, 0), 3, 3, 3)),
            Box::new(|r| bfs::<usize>(r, (2, 1), 3, 3, 3)),
            Box::new(|r| bfs::<usize>(r, (0, 0), 4, 2, 2)),
            Box::new(|r| bfs::<usize>(r, (1048572, 16380), 4, 2, 2)),
            Box::new(|r| bfs::<Data>(r, (1, 0), 3, 3, 3)),
            Box::new(|r| bfs::<String>(r, (0, 3), 3, 3, 2)),
            Box::new(|r| bfs::<Data>(r, (65533, 253), 3, 2, 2)),
        ]
    };
    use rayon::prelude::*;
    jobs.par_iter().for_each(|j| j(rep));
    rep.exhaustive(true);
}

pub fn replay(path: &str) -> i32 {
    let Ok(s) = std::fs::read_to_string(path) else { eprintln!("cannot read {path}"); return 2 };
    let v: serde_json::Value = serde_json::from_str(&s).unwrap();
    let ops: Vec<Op> = v["ops"].as_array().unwrap().iter().map(Op::from_js).collect();
    fn run<T: Dom>(ops: &[Op]) -> String {
        let mut out = String::new();
        let r = guarded(|| {
            let (mut r, _) = apply_ctor::<T>(&ops[0]);
            for op in &ops[1..] {
                match op {
                    Op::Set(p, v) => r.set_value(*p, T::val(*v)),
                    Op::Sub(s, e) => r = r.range(*s, *e),
                    _ => {}
                }
            }
            format!("start={:?} end={:?} size={:?} cells.len={} rows={} cells={:?}", r.start(), r.end(), r.get_size(), r.cells().len(), r.rows().len(), r.cells().map(|c| c.2.code()).collect::<Vec<_>>())
        });
        match r { Ok(s) => out.push_str(&s), Err(p) => out.push_str(&format!("PANIC {p}")) }
        out
    }
    let dom = v["domain"].as_str().unwrap_or("usize");
    let f = |o: &[Op]| match dom { "Data" => run::<Data>(o), "String" => run::<String>(o), _ => run::<usize>(o) };
    let a = f(&ops);
    let b = f(&ops);
    if a != b { eprintln!("MACHINERY: replay not deterministic"); return 2; }
    println!("ops: {}", v["ops"]);
    println!("recorded error: {}", v["error"]);
    println!("observed now: {a}");
    0
}
