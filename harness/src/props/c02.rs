//! C02 — XLS (BIFF8): every cell record reads back at its position with its value.
//! (a) all 2^32 RK words through the real decoder (hook) against the MS-XLS 2.5.217 definition;
//! (b) E1: small sheets x every exact record encoding of each number x MULRK grouping, end to end.
use crate::engine::choice::{explore_deviations, run_one, Chooser, Stats};
use crate::engine::report::{Replay, Report};
use crate::engine::{guarded, hash_of, normalise_site};
use crate::gen::biff8::*;
use crate::gen::cfb;
use calamine::{CellErrorType, Data, Reader, Xls};
use rayon::prelude::*;
use serde_json::json;
use std::collections::BTreeMap;
use std::io::Cursor;
use std::sync::Mutex;

/// MS-XLS 2.5.217 RkNumber
fn rk_reference(w: u32) -> (f64, bool, bool) {
    let x100 = w & 1 != 0;
    let is_int = w & 2 != 0;
    let v = if is_int { ((w as i32) >> 2) as f64 } else { f64::from_bits(((w & 0xFFFF_FFFC) as u64) << 32) };
    (if x100 { v / 100.0 } else { v }, is_int, x100)
}

fn rk_sweep(rep: &Report) {
    let chunks: Vec<u32> = (0..4096).collect();
    let bad: Mutex<Vec<(String, u32, String)>> = Mutex::new(vec![]);
    let outcome = std::sync::atomic::AtomicU64::new(0);
    chunks.par_iter().for_each(|c| {
        crate::engine::crumb::set_case(&format!("C02 rk sweep chunk {c}"));
        let mut h = 0u64;
        let mut nbad = 0;
        for lo in 0..(1u32 << 20) {
            let w = (c << 20) | lo;
            let (exp, is_int, x100) = rk_reference(w);
            let got = calamine::verif::xls::rk_num(w);
            let ok = match (&got, is_int, x100) {
                (Data::Int(i), true, false) => *i as f64 == exp && *i == ((w as i32) >> 2) as i64,
                (Data::Int(i), true, true) => *i as f64 == exp,
                (Data::Float(f), true, true) => *f == exp,
                (Data::Float(f), false, _) => f.to_bits() == exp.to_bits() || (f.is_nan() && exp.is_nan()),
                _ => false,
            };
            h = h.wrapping_mul(31).wrapping_add(match &got { Data::Int(i) => *i as u64, Data::Float(f) => f.to_bits(), _ => 7 });
            if !ok && nbad < 4 {
                nbad += 1;
                let key = format!("rk/{}{}/{}", if is_int { "int" } else { "float" }, if x100 { "-x100" } else { "" }, match &got { Data::Int(_) => "as-int", Data::Float(_) => "as-float", _ => "other" });
                let mut b = bad.lock().unwrap();
                if b.len() < 4096 { b.push((key, w, format!("rk word {w:#010x} decoded as {got:?}, expected value {exp} (fInt={is_int}, fX100={x100})"))); }
            }
        }
        outcome.fetch_xor(h, std::sync::atomic::Ordering::Relaxed);
        crate::engine::crumb::clear();
    });
    rep.eval(1u64 << 32);
    rep.add_states(1u64 << 32, 1u64 << 32);
    rep.case(hash_of(&"rk-sweep"), true, outcome.load(std::sync::atomic::Ordering::Relaxed));
    for (key, w, what) in bad.into_inner().unwrap() {
        rep.fail(&key, &what, || Replay { json: json!({"rk_word": w}), files: vec![] });
    }
}

#[derive(Clone, Debug)]
enum Kind {
    /// numeric value with one of its exact encodings ("number" or an RK form)
    Num(f64, &'static str, u32),
    Sst(u32),
    Label(&'static str, bool),
    Bool(bool),
    Err(u8),
    Fmla(FRes),
    /// formula whose token stream the text renderer does not understand (PtgMemArea as in =SUM((A1,A2)), PtgRefN, an unknown
    /// function index): the cached result is still the cell's value
    FmlaOddTokens(FRes, u8),
}

fn err_of(code: u8) -> CellErrorType {
    match code { 0x00 => CellErrorType::Null, 0x07 => CellErrorType::Div0, 0x0F => CellErrorType::Value, 0x17 => CellErrorType::Ref, 0x1D => CellErrorType::Name, 0x24 => CellErrorType::Num, 0x2A => CellErrorType::NA, _ => CellErrorType::GettingData }
}

const SST: [&str; 3] = ["alpha", "b\u{e9}ta", "\u{20ac}uro"];

fn kinds() -> Vec<Kind> {
    let mut v = vec![];
    let nums = [1.5f64, 0.0, 1.0, -1.0, 0.01, 1234.56, 536870911.0, -536870912.0, 536870912.0, 1e100, 5e-324, -7.25, 3.0e9, 123456.78, -0.5, 0.35, 1.13];
    for n in nums {
        // Excel prefers RK whenever the value fits: RK forms first, NUMBER last
        for (name, w) in rk_encodings(n) { v.push(Kind::Num(n, name, w)); }
        v.push(Kind::Num(n, "number", 0));
    }
    v.push(Kind::Sst(0)); v.push(Kind::Sst(1)); v.push(Kind::Sst(2));
    v.push(Kind::Label("lab", false)); v.push(Kind::Label("lab", true)); v.push(Kind::Label("l\u{e4}b\u{20ac}", true));
    v.push(Kind::Bool(true)); v.push(Kind::Bool(false));
    for e in [0x00u8, 0x07, 0x0F, 0x17, 0x1D, 0x24, 0x2A, 0x2B] { v.push(Kind::Err(e)); }
    v.push(Kind::Fmla(FRes::Num(2.5)));
    // cached numbers whose IEEE bytes have 0xFF in exactly one of the two top bytes (the other marks a non-numeric result)
    for x in [1.9375f64, 1.95, 130000.0, -1e308, f64::from_bits(0x00FF_0000_0000_0000)] { v.push(Kind::Fmla(FRes::Num(x))); } v.push(Kind::Fmla(FRes::Str("res".into(), false))); v.push(Kind::Fmla(FRes::Str("r\u{e9}s".into(), true)));
    // the anchor cell of a shared formula / array formula / data table: another record between FORMULA and STRING
    for w in 0..3u8 { v.push(Kind::FmlaOddTokens(FRes::Num(6.5), w)); }
    v.push(Kind::FmlaOddTokens(FRes::Bool(true), 0)); v.push(Kind::FmlaOddTokens(FRes::Err(0x07), 1));
    for t in [0x04BCu16, 0x0221, 0x0236] { v.push(Kind::Fmla(FRes::StrVia("via".into(), false, t))); }
    v.push(Kind::Fmla(FRes::Bool(true))); v.push(Kind::Fmla(FRes::Err(0x07))); v.push(Kind::Fmla(FRes::Err(0x2A))); v.push(Kind::Fmla(FRes::EmptyStr));
    v
}

#[derive(Clone, Debug, PartialEq)]
enum Exp { Val(Data), /// numeric value; `must` = required variant ("int"/"float"/"")
    Numeric(f64, &'static str) }

fn build(ch: &mut Chooser, anchor: (u16, u16), positions: &[(u16, u16)]) -> (Vec<u8>, BTreeMap<(u32, u32), Exp>, serde_json::Value) {
    let ks = kinds();
    let mut chosen: Vec<((u16, u16), Kind)> = vec![];
    for p in positions { chosen.push(((anchor.0 + p.0, anchor.1 + p.1), ks[ch.choose("cell-kind", ks.len())].clone())); }
    chosen.sort_by_key(|c| c.0);
    let mut exp = BTreeMap::new();
    let mut cells: Vec<BCell> = vec![];
    let mut desc = vec![];
    let noise = ch.flag("ignorable-records");
    let mut i = 0;
    while i < chosen.len() {
        let ((r, c), k) = chosen[i].clone();
        let pos = (r as u32, c as u32);
        desc.push(json!([r, c, format!("{k:?}")]));
        if noise { cells.push(BCell::Raw(0x0208, { let mut d = r.to_le_bytes().to_vec(); d.extend([0u8; 14]); d })); }
        match k {
            Kind::Num(v, enc, w) => {
                let must = match enc { "number" | "rk-float" | "rk-float-x100" => "float", "rk-int" => "int", _ => "" };
                exp.insert(pos, Exp::Numeric(v, must));
                if enc == "number" { cells.push(BCell::Number { r, c, xf: 0, v }); }
                else {
                    // group with following adjacent RK cells of the same row into a MULRK?
                    let mut items = vec![(0u16, w)];
                    let mut j = i + 1;
                    while j < chosen.len() {
                        let ((r2, c2), k2) = &chosen[j];
                        match k2 {
                            Kind::Num(v2, enc2, w2) if *r2 == r && *c2 == c + items.len() as u16 && *enc2 != "number" => {
                                if !ch.flag("mulrk-group-with-previous") { break; }
                                let must2 = match *enc2 { "rk-float" | "rk-float-x100" => "float", "rk-int" => "int", _ => "" };
                                exp.insert((*r2 as u32, *c2 as u32), Exp::Numeric(*v2, must2));
                                desc.push(json!([r2, c2, format!("{k2:?} (in MULRK)")]));
                                items.push((0, *w2));
                                j += 1;
                            }
                            _ => break,
                        }
                    }
                    if items.len() > 1 { cells.push(BCell::MulRk { r, c0: c, items }); i = j; continue; }
                    cells.push(BCell::Rk { r, c, xf: 0, rk: w });
                }
            }
            Kind::Sst(ix) => { exp.insert(pos, Exp::Val(Data::String(SST[ix as usize].into()))); cells.push(BCell::LabelSst { r, c, xf: 0, isst: ix }); }
            Kind::Label(t, wide) => { exp.insert(pos, Exp::Val(Data::String(t.into()))); cells.push(BCell::Label { r, c, xf: 0, text: t.into(), wide }); }
            Kind::Bool(b) => { exp.insert(pos, Exp::Val(Data::Bool(b))); cells.push(BCell::BoolErr { r, c, xf: 0, val: b as u8, is_err: false }); }
            Kind::Err(e) => { exp.insert(pos, Exp::Val(Data::Error(err_of(e)))); cells.push(BCell::BoolErr { r, c, xf: 0, val: e, is_err: true }); }
            Kind::FmlaOddTokens(res, which) => {
                let e = match &res { FRes::Num(v) => Data::Float(*v), FRes::Bool(b) => Data::Bool(*b), FRes::Err(e) => Data::Error(err_of(*e)), _ => Data::String(String::new()) };
                exp.insert(pos, Exp::Val(e));
                let rgce: Vec<u8> = match which {
                    // PtgMemArea (cce of the sub-expression = 9) + two PtgRef + PtgUnion
                    0 => vec![0x26, 0, 0, 0, 0, 11, 0, 0x24, 0, 0, 0, 0xC0, 0x24, 1, 0, 0, 0xC0, 0x10],
                    // PtgRefN (relative reference of a shared formula / name context)
                    1 => vec![0x2C, 1, 0, 1, 0xC0],
                    // PtgFunc with an index outside the function table
                    _ => vec![0x1E, 1, 0, 0x21, 0xF0, 0x7F],
                };
                cells.push(BCell::Formula { r, c, xf: 0, res, rgce });
            }
            Kind::Fmla(res) => {
                let e = match &res { FRes::Num(v) => Data::Float(*v), FRes::Str(s, _) | FRes::StrVia(s, _, _) => Data::String(s.clone()), FRes::Bool(b) => Data::Bool(*b), FRes::Err(e) => Data::Error(err_of(*e)), FRes::EmptyStr => Data::String(String::new()) };
                exp.insert(pos, Exp::Val(e));
                cells.push(BCell::Formula { r, c, xf: 0, res, rgce: vec![0x1E, 1, 0] });
            }
        }
        if noise { cells.push(BCell::Blank { r, c: c.saturating_add(3).min(255), xf: 0 }); cells.push(BCell::Raw(0x00D7, vec![0; 6])); }
        i += 1;
    }
    let mut chs = Chooser::new(&[]);
    let sst: Vec<SstString> = SST.iter().map(|s| SstString::plain(s)).collect();
    let book = BBook { sheets: vec![BSheet::new("S1", cells), BSheet::new("Other", vec![BCell::Number { r: 3, c: 2, xf: 0, v: 9.0 }])], sst_records: sst_records(&mut chs, &sst, 3), substream_order: if ch.flag("sheet-substreams-in-reverse-of-boundsheet-order") { vec![1, 0] } else { vec![] }, ..Default::default() };
    let lay = cfb::Layout { v4: ch.flag("cfb.v4"), ..Default::default() };
    let mut stream = workbook_stream(&book);
    if ch.flag("pad-stream-to-regular-sectors") && stream.len() < 4096 { stream.resize(4096, 0); }
    // a dual-format file carries a BIFF5 `Book` stream as well (listed first here): `Workbook` is the one to read
    let bytes = if ch.flag("also-a-Book-stream") {
        let other = workbook_stream(&BBook { sheets: vec![BSheet::new("S1", vec![BCell::Number { r: 9, c: 9, xf: 0, v: 99.0 }])], ..Default::default() });
        cfb::simple(&[("Book", other), ("Workbook", stream)], &lay)
    } else { cfb::simple(&[("Workbook", stream)], &lay) };
    (bytes, exp, json!({"cells": desc, "ignorable_records": noise}))
}

fn run_case(rep: &Report, ch: &mut Chooser, anchor: (u16, u16), positions: &[(u16, u16)], local: &mut Vec<(u64, bool, u64)>) {
    let (bytes, exp, desc) = build(ch, anchor, positions);
    rep.eval(1);
    let replay = || Replay { json: json!({"anchor": anchor, "positions": positions, "choices": ch.choices(), "case": desc}), files: vec![("xls".into(), bytes.clone())] };
    let res = guarded(|| -> Result<calamine::Range<Data>, String> {
        let mut wb: Xls<_> = Xls::new(Cursor::new(bytes.clone())).map_err(|e| format!("open: {e:?}"))?;
        wb.worksheet_range("S1").map_err(|e| format!("worksheet_range: {e:?}"))
    });
    let outcome = match &res {
        Err(p) => { let site = normalise_site(p.rsplit(" @ ").next().unwrap_or("")); rep.fail(&format!("panic/{site}"), &format!("reader panicked: {p}"), replay); hash_of(p) }
        Ok(Err(e)) => { let class: String = e.chars().take_while(|c| *c != '(' && *c != '{').collect(); rep.fail(&format!("error/{}", class.trim()), &format!("well-formed workbook rejected: {e}"), replay); hash_of(e) }
        Ok(Ok(r)) => {
            // bounds
            let nonempty: Vec<(u32, u32)> = exp.keys().copied().collect();
            let bb = if nonempty.is_empty() { None } else { Some(((nonempty.iter().map(|p| p.0).min().unwrap(), nonempty.iter().map(|p| p.1).min().unwrap()), (nonempty.iter().map(|p| p.0).max().unwrap(), nonempty.iter().map(|p| p.1).max().unwrap()))) };
            let got_bb = match (r.start(), r.end()) { (Some(s), Some(e)) => Some((s, e)), _ => None };
            if bb != got_bb { rep.fail("bounds", &format!("range {got_bb:?}, expected {bb:?}"), replay); }
            else if let Some((s, e)) = bb {
                'outer: for row in s.0..=e.0 { for col in s.1..=e.1 {
                    let got = r.get_value((row, col)).cloned().unwrap_or(Data::Empty);
                    let ok = match exp.get(&(row, col)) {
                        None => matches!(got, Data::Empty),
                        Some(Exp::Val(d)) => *d == got,
                        Some(Exp::Numeric(v, must)) => match &got {
                            Data::Float(f) => (f.to_bits() == v.to_bits() || f == v) && *must != "int",
                            Data::Int(i) => *i as f64 == *v && *must != "float",
                            _ => false,
                        },
                    };
                    if !ok {
                        let kind = match exp.get(&(row, col)) { None => "spurious".to_string(), Some(Exp::Val(d)) => format!("{}", format!("{d:?}").split('(').next().unwrap_or("")), Some(Exp::Numeric(_, m)) => format!("numeric-{m}") };
                        rep.fail(&format!("value/{kind}"), &format!("at ({row},{col}) got {got:?}, expected {:?}", exp.get(&(row, col))), replay);
                        break 'outer;
                    }
                } }
            }
            hash_of(&format!("{exp:?}"))
        }
    };
    local.push((hash_of(&bytes), !ch.is_default(), outcome));
    if rep.want_sample() && ch.choices().iter().filter(|x| **x != 0).count() >= 2 { rep.sample(desc); }
}

fn position_sets(kmax: usize) -> Vec<Vec<(u16, u16)>> {
    let all: Vec<(u16, u16)> = (0..2).flat_map(|r| (0..3).map(move |c| (r, c))).collect();
    let mut out = vec![vec![]];
    fn rec(all: &[(u16, u16)], start: usize, k: usize, cur: &mut Vec<(u16, u16)>, out: &mut Vec<Vec<(u16, u16)>>) {
        if cur.len() == k { out.push(cur.clone()); return; }
        for i in start..all.len() { cur.push(all[i]); rec(all, i + 1, k, cur, out); cur.pop(); }
    }
    for k in 1..=kmax { rec(&all, 0, k, &mut vec![], &mut out); }
    out
}

/// Shared-string tables around the 8- and 16-bit index boundaries: LABELSST carries a 32-bit index.
pub(crate) fn large_sst(rep: &Report) {
    let sizes = [255usize, 256, 257, 65_535, 65_536, 65_537, 66_000];
    sizes.par_iter().for_each(|n| {
        crate::engine::crumb::set_job(&format!("C02 shared-string table of {n} strings"));
        let strings: Vec<String> = (0..*n).map(|i| format!("s{i}")).collect();
        let idx: Vec<u32> = [0u32, 1, 254, 255, 256, 257, 65_534, 65_535, 65_536, 65_537, *n as u32 - 1].into_iter().filter(|i| (*i as usize) < *n).collect();
        let cells: Vec<BCell> = idx.iter().enumerate().map(|(k, i)| BCell::LabelSst { r: k as u16, c: 0, xf: 0, isst: *i }).collect();
        let book = BBook { sheets: vec![BSheet::new("S1", cells)], sst_records: crate::gen::biff8::sst_records_whole(&strings, idx.len() as u32), ..Default::default() };
        let bytes = cfb::simple(&[("Workbook", workbook_stream(&book))], &cfb::Layout::default());
        rep.eval(1);
        let replay = || Replay { json: json!({"large_sst": n, "indices": idx}), files: vec![("xls".into(), bytes.clone())] };
        let res = guarded(|| -> Result<calamine::Range<Data>, String> {
            let mut wb: Xls<_> = Xls::new(Cursor::new(bytes.clone())).map_err(|e| format!("open: {e:?}"))?;
            wb.worksheet_range("S1").map_err(|e| format!("worksheet_range: {e:?}"))
        });
        match &res {
            Err(p) => rep.fail("large-sst/panic", &format!("reader panicked: {p}"), replay),
            Ok(Err(e)) => rep.fail("large-sst/error", &format!("well-formed workbook rejected: {e}"), replay),
            Ok(Ok(r)) => for (k, i) in idx.iter().enumerate() {
                let got = r.get_value((k as u32, 0)).cloned().unwrap_or(Data::Empty);
                if got != Data::String(format!("s{i}")) { rep.fail("large-sst/index", &format!("table of {n} strings: LABELSST isst {i} at ({k},0) read {got:?}"), replay); break; }
            },
        }
        rep.case(hash_of(&bytes), true, hash_of(&format!("{:?}", res.as_ref().map(|r| r.as_ref().map(|x| x.get_size()).map_err(|e| e.clone())).map_err(|e| e.clone()))));
        crate::engine::crumb::clear();
    });
}

pub fn check(rep: &Report) {
    let t = crate::thorough(&rep.tier);
    rep.rule("(a) all 2^32 RK words through the real rk decoder vs MS-XLS 2.5.217; (b) sheets with <= k cells in a 2x3 window at anchors {(0,0),(1,100),(65534,253)} over ~75 cell kinds = 15 numbers x every exact encoding (NUMBER, RK int/float, both x100 forms), LABELSST, LABEL 8/16-bit, BOOLERR (2 bools, 8 error codes), FORMULA with numeric/string/bool/error/empty-string result; adjacent RK cells optionally grouped into MULRK; ignorable records interleaved; v3/v4 container; all choice vectors with <= d deviations; non-trivial = non-default choice; distinct by file bytes");
    rep.assume("RK int with the /100 flag may read as Int (exact multiple) or Float: the statement only requires numeric equality there");
    rk_sweep(rep);
    large_sst(rep);
    let anchors: [(u16, u16); 3] = [(0, 0), (1, 100), (65534, 253)];
    let kmax = if t { 3 } else { 2 };
    let dev = if t { 3 } else { 2 };
    let mut jobs = vec![];
    for a in anchors { for p in position_sets(kmax) { jobs.push((a, p)); } }
    let stats = Mutex::new(Stats::default());
    jobs.par_iter().for_each(|(a, p)| {
        crate::engine::crumb::set_job(&format!("C02 anchor={a:?} positions={p:?}"));
        let mut st = Stats::default();
        let mut local = vec![];
        explore_deviations(|ch| run_case(rep, ch, *a, p, &mut local), if p.len() >= 3 { 2 } else { dev }, &mut st);
        rep.cases_bulk(&local);
        stats.lock().unwrap().merge(&st);
        crate::engine::crumb::clear();
    });
    let st = stats.lock().unwrap();
    rep.add_states(st.nodes, st.edges);
    rep.trace(st.executions + (1u64 << 32));
    rep.extra("rk_words_swept", json!(1u64 << 32));
    rep.extra("file_level_executions", json!(st.executions));
    rep.extra("choice_labels_covered", st.label_summary());
    rep.exhaustive(true);
}

pub fn replay(path: &str) -> i32 {
    let Ok(s) = std::fs::read_to_string(path) else { return 2 };
    let v: serde_json::Value = serde_json::from_str(&s).unwrap();
    if v.get("large_sst").is_some() {
        let bytes = std::fs::read(v["files"][0].as_str().unwrap()).unwrap_or_default();
        let r = guarded(|| { let mut wb: Xls<_> = Xls::new(Cursor::new(bytes.clone())).unwrap(); let r = wb.worksheet_range("S1").unwrap(); (0..12u32).map(|k| format!("{:?}", r.get_value((k, 0)))).collect::<Vec<_>>() });
        println!("table of {} strings, cells reference {}: read {r:?}", v["large_sst"], v["indices"]);
        return 0;
    }
    if let Some(w) = v.get("rk_word").and_then(|w| w.as_u64()) {
        println!("rk word {w:#010x}: decoded {:?}, reference {:?}", calamine::verif::xls::rk_num(w as u32), rk_reference(w as u32));
        return 0;
    }
    let choices: Vec<u32> = v["choices"].as_array().unwrap().iter().map(|x| x.as_u64().unwrap() as u32).collect();
    let anchor = (v["anchor"][0].as_u64().unwrap() as u16, v["anchor"][1].as_u64().unwrap() as u16);
    let positions: Vec<(u16, u16)> = v["positions"].as_array().unwrap().iter().map(|p| (p[0].as_u64().unwrap() as u16, p[1].as_u64().unwrap() as u16)).collect();
    let mut outs = vec![];
    for _ in 0..2 {
        let mut o = String::new();
        run_one(|ch| { let (bytes, exp, _) = build(ch, anchor, &positions); o = format!("{:?}\nexpected: {exp:?}", guarded(|| crate::props::dump::dump_xls(&bytes))); }, &choices);
        outs.push(o);
    }
    if outs[0] != outs[1] { eprintln!("MACHINERY: replay not deterministic"); return 2; }
    println!("case: {}\nrecorded: {}\nobserved now: {}", v["case"], v["what"], outs[0]);
    0
}
