//! C13 — compound-file streams are recovered whatever the container's physical layout.
//! E1: stream sets x physical layouts, byte-exact through the real Cfb reader (hook) and, end to end,
//! through Xls (same workbook in every layout must read identically).
use crate::engine::choice::{estimate_product, explore_deviations, explore_full, run_one, Chooser, Stats};
use crate::engine::report::{Replay, Report};
use crate::engine::{guarded, hash_of, normalise_site};
use crate::gen::cfb::*;
use rayon::prelude::*;
use serde_json::json;
use std::sync::Mutex;

pub fn content(ix: usize, len: usize) -> Vec<u8> {
    // every 4-byte word encodes (stream, offset) so a misplaced or truncated sector is visible
    let mut v = Vec::with_capacity(len + 4);
    let mut o = 0u32;
    while v.len() < len {
        let w = (o.wrapping_mul(2654435761) ^ ((ix as u32 + 1) << 28) ^ o).to_le_bytes();
        v.extend_from_slice(&w);
        o += 1;
    }
    v.truncate(len);
    v
}

pub fn choose_layout(ch: &mut Chooser) -> Layout {
    Layout {
        v4: ch.flag("cfb.v4"),
        order: ch.pick("cfb.sector-order", &[Order::Sequential, Order::StreamsFirst, Order::Reversed, Order::Interleaved, Order::Perm(2), Order::Perm(3), Order::Perm(4), Order::Perm(5)]),
        mini_order: ch.pick("cfb.mini-order", &[Order::Sequential, Order::Reversed, Order::Interleaved, Order::Perm(4)]),
        unused_dir_entries: ch.pick("cfb.unused-dir-entries", &[0usize, 1, 3]),
        dir_reversed: ch.flag("cfb.dir-reversed"),
        free_sectors: ch.pick("cfb.free-sectors", &[0usize, 1, 2]),
        extra_fat_sectors: ch.pick("cfb.extra-fat", &[0usize, 1]),
        free_mini_sectors: ch.pick("cfb.free-mini", &[0usize, 1]),
        name_garbage: ch.flag("cfb.stale-bytes-after-name-terminator"),
        size_hi_garbage: ch.flag("cfb.v3-junk-in-upper-half-of-size-field"),
        empty_minifat_sector: ch.flag("cfb.mini-fat-sector-without-mini-stream"),
        spare_chain_sectors: ch.pick("cfb.spare-sectors-at-the-end-of-chains", &[0usize, 2]),
    }
}

const NAMES: [&str; 3] = ["Workbook", "Second stream", "EncryptedPackage"];

fn size_class(n: usize) -> &'static str {
    if n == 0 { "empty" } else if n < 4096 { "mini" } else { "regular" }
}

fn run_case(rep: &Report, ch: &mut Chooser, sizes: &[usize], local: &mut Vec<(u64, bool, u64)>, dry: bool) {
    let lay = choose_layout(ch);
    if dry { return; }
    let streams: Vec<(&str, Vec<u8>)> = sizes.iter().enumerate().map(|(i, n)| (NAMES[i], content(i, *n))).collect();
    let bytes = simple(&streams, &lay);
    rep.eval(1);
    let names: Vec<&str> = streams.iter().map(|s| s.0).collect();
    let res = guarded(|| calamine::verif::cfb::get_streams(&bytes, &names));
    let desc = json!({"sizes": sizes, "layout": format!("{lay:?}")});
    let replay = || Replay { json: json!({"sizes": sizes, "choices": ch.choices(), "case": desc}), files: vec![("cfb".into(), bytes.clone())] };
    let classes: Vec<&str> = sizes.iter().map(|n| size_class(*n)).collect();
    let tag = format!("{}{}", if lay.v4 { "v4" } else { "v3" }, if classes.iter().any(|c| *c == "mini") { "" } else { "/no-mini-stream" });
    let outcome = match &res {
        Err(p) => {
            let site = normalise_site(p.rsplit(" @ ").next().unwrap_or(""));
            rep.fail(&format!("panic/{site}"), &format!("Cfb reader panicked: {p}"), replay);
            hash_of(p)
        }
        Ok(Err(e)) => {
            rep.fail(&format!("open-error/{}/{tag}", e.split('(').next().unwrap_or(e)), &format!("valid container rejected: {e}"), replay);
            hash_of(e)
        }
        Ok(Ok(v)) => {
            for (i, r) in v.iter().enumerate() {
                match r {
                    Err(e) => { rep.fail(&format!("stream-error/{}/{}", classes[i], e.split('(').next().unwrap_or(e)), &format!("stream {} ({} bytes): {e}", names[i], sizes[i]), replay); break; }
                    Ok(d) if *d != streams[i].1 => {
                        let kind = if d.len() != streams[i].1.len() { "length" } else { "content" };
                        let at = d.iter().zip(streams[i].1.iter()).position(|(a, b)| a != b);
                        rep.fail(&format!("stream-{kind}/{}/{:?}", classes[i], if classes[i] == "mini" { lay.mini_order } else { lay.order }), &format!("stream {} ({} bytes) read back {} bytes, first difference at {:?}", names[i], sizes[i], d.len(), at), replay);
                        break;
                    }
                    _ => {}
                }
            }
            hash_of(&(sizes, "ok"))
        }
    };
    local.push((hash_of(&bytes), !ch.is_default(), outcome));
    if rep.want_sample() && ch.choices().iter().filter(|x| **x != 0).count() >= 3 { rep.sample(desc); }
}

pub fn check(rep: &Report) {
    let t = crate::thorough(&rep.tier);
    rep.rule("(a) stream sets = 1..3 streams with sizes from {0,1,63,64,65,4095,4096,4097,8191,8192,65536} (all singles, all ordered pairs, selected triples; a 7.3 MB and a 15.9 MB stream, the latter needing two DIFAT sectors; thorough adds a 15.3 MB stream whose 236 FAT sectors fill the header DIFAT and one complete DIFAT sector); layout = v3/v4 x 8 sector orders x 4 mini-sector orders x unused directory entries x directory order x free sectors x extra FAT sectors x free mini sectors x stale bytes after the directory-name terminator x junk in the upper half of v3 size fields x a mini FAT sector without mini stream x chains owning 2 spare sectors; full layout product (73728) per set in thorough, <=2 deviations in quick plus the full product on 6 sets; non-trivial = non-default layout; distinct by container bytes; (b) end to end: one xls workbook with a two-module VBA project (Workbook stream below or above the 4096-byte cutoff) in the same layouts (quick <= 2 deviations, thorough full product) must read as the same ranges, module bytes and references as in the default layout");
    rep.assume("zero-length streams are written with start sector ENDOFCHAIN; the red-black colouring of the directory tree is not varied (calamine does not walk the tree)");
    let sizes = [0usize, 1, 63, 64, 65, 4095, 4096, 4097, 8191, 8192, 65536];
    let mut sets: Vec<Vec<usize>> = vec![];
    for a in sizes { sets.push(vec![a]); }
    for a in sizes { for b in sizes { sets.push(vec![a, b]); } }
    for tr in [[64usize, 4096, 65], [4097, 1, 8192], [4095, 4095, 4096], [65536, 63, 4097], [0, 4096, 0], [1, 1, 1]] { sets.push(tr.to_vec()); }
    let stats = Mutex::new(Stats::default());
    let full_sets: Vec<Vec<usize>> = vec![vec![4096], vec![64, 4097], vec![4095, 8192], vec![65, 65536], vec![4097, 1, 8192], vec![8192, 8192]];
    sets.par_iter().for_each(|s| {
        crate::engine::crumb::set_job(&format!("C13 sizes={s:?}"));
        let mut st = Stats::default();
        let mut local = vec![];
        let _ = estimate_product(|ch| run_case(rep, ch, s, &mut vec![], true));
        if t || full_sets.contains(s) {
            explore_full(|ch| run_case(rep, ch, s, &mut local, false), &mut st, u64::MAX);
        } else {
            explore_deviations(|ch| run_case(rep, ch, s, &mut local, false), 2, &mut st);
        }
        rep.cases_bulk(&local);
        stats.lock().unwrap().merge(&st);
        crate::engine::crumb::clear();
    });
    {
        // a 7.3 MB stream: 113 FAT sectors in a 512-byte-sector file, i.e. one DIFAT sector of which only the first 4 slots are
        // used (the rest is FREESECT); 2 FAT sectors and no DIFAT sector with 4096-byte sectors
        crate::engine::crumb::set_job("C13 sizes=[7300000, 100]");
        let big = vec![7_300_000usize, 100];
        let mut st = Stats::default();
        let mut local = vec![];
        explore_deviations(|ch| run_case(rep, ch, &big, &mut local, false), 1, &mut st);
        rep.cases_bulk(&local);
        stats.lock().unwrap().merge(&st);
        crate::engine::crumb::clear();
    }
    {
        // 15.9 MB: 243 FAT sectors = the 109 header slots, one complete DIFAT sector and a second, partly filled one whose
        // predecessor's last slot is a link, not a FAT sector (only the three base sector orders, everything else default)
        crate::engine::crumb::set_job("C13 sizes=[15900000, 100]");
        let big = vec![15_900_000usize, 100];
        let mut st = Stats::default();
        let mut local = vec![];
        for pre in [vec![0u32], vec![0, 1], vec![0, 2]] { crate::engine::choice::run_one(|ch| run_case(rep, ch, &big, &mut local, false), &pre); st.executions += 1; }
        rep.cases_bulk(&local);
        stats.lock().unwrap().merge(&st);
        crate::engine::crumb::clear();
    }
    if t {
        // one large stream: > 109 FAT sectors in v3 => DIFAT chain
        crate::engine::crumb::set_job("C13 sizes=[15334400, 100]");
        let big = vec![15_334_400usize, 100];
        let mut st = Stats::default();
        let mut local = vec![];
        explore_deviations(|ch| run_case(rep, ch, &big, &mut local, false), 1, &mut st);
        rep.cases_bulk(&local);
        stats.lock().unwrap().merge(&st);
        crate::engine::crumb::clear();
    }
    super::c13_e2e::check(rep, &stats);
    let st = stats.lock().unwrap();
    rep.add_states(st.nodes, st.edges);
    rep.trace(st.executions);
    rep.extra("stream_sets", json!(sets.len()));
    rep.extra("choice_labels_covered", st.label_summary());
    rep.exhaustive(true);
}

pub fn replay(path: &str) -> i32 {
    let Ok(s) = std::fs::read_to_string(path) else { return 2 };
    let v: serde_json::Value = serde_json::from_str(&s).unwrap();
    if let Some(c) = crate::props::corpus::replay_fixture(&v) { return c; }
    if v.get("sizes").is_none() { return super::c13_e2e::replay(&v); }
    let choices: Vec<u32> = v["choices"].as_array().unwrap().iter().map(|x| x.as_u64().unwrap() as u32).collect();
    let sizes: Vec<usize> = v["sizes"].as_array().unwrap().iter().map(|x| x.as_u64().unwrap() as usize).collect();
    let mut outs = vec![];
    for _ in 0..2 {
        let mut o = String::new();
        run_one(|ch| {
            let lay = choose_layout(ch);
            let streams: Vec<(&str, Vec<u8>)> = sizes.iter().enumerate().map(|(i, n)| (NAMES[i], content(i, *n))).collect();
            let bytes = simple(&streams, &lay);
            let names: Vec<&str> = streams.iter().map(|s| s.0).collect();
            let r = guarded(|| calamine::verif::cfb::get_streams(&bytes, &names));
            o = match r {
                Ok(Ok(v)) => v.iter().enumerate().map(|(i, r)| match r { Ok(d) => format!("{}: {} bytes, equal={}", names[i], d.len(), *d == streams[i].1), Err(e) => format!("{}: {e}", names[i]) }).collect::<Vec<_>>().join("; "),
                other => format!("{other:?}"),
            };
        }, &choices);
        outs.push(o);
    }
    if outs[0] != outs[1] { eprintln!("MACHINERY: replay not deterministic"); return 2; }
    println!("case: {}\nrecorded: {}\nobserved now: {}", v["case"], v["what"], outs[0]);
    0
}
