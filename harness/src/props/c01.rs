//! C01 — XLSX: every cell reads back at its position, with its value and type, whatever the legal
//! physical encoding. E1 choice tree: logical sheet x encoding.
use crate::engine::choice::{explore_deviations, explore_full, run_one, Chooser, Stats};
use crate::engine::report::{Replay, Report};
use crate::engine::{guarded, hash_of, normalise_site};
use crate::gen::xlsx::*;
use crate::gen::zipw::Method;
use crate::model::sheet::{check_range, range_ref_to_data, Grid};
use calamine::{CellErrorType, Data, Reader, ReaderRef, Xlsx};
use rayon::prelude::*;
use serde_json::json;
use std::io::Cursor;
use std::sync::Mutex;

pub const ANCHORS: [(u32, u32); 4] = [(0, 0), (5, 27), (99, 701), (1_048_572, 16_380)];

fn sst() -> Vec<XText> {
    vec![
        XText::plain("one"),
        XText { runs: vec![XRun::R("tw".into()), XRun::R("o".into())], enc: TextEnc::Entities },
        XText::plain("three & <3>"),
    ]
}

/// cell kinds, simplest first: (name, writer value, has formula, style, expected)
fn kinds() -> Vec<(&'static str, XVal, Option<XFormula>, Option<u32>, Data)> {
    let err = |s: &str, e: CellErrorType| (Box::leak(format!("error {s}").into_boxed_str()) as &'static str, XVal::Err(s.to_string()), None, None, Data::Error(e));
    vec![
        ("number", XVal::Num("1.5".into()), None, None, Data::Float(1.5)),
        ("integer-looking number", XVal::Num("42".into()), None, None, Data::Float(42.0)),
        ("shared string", XVal::SharedStr(0), None, None, Data::String("one".into())),
        ("shared rich string", XVal::SharedStr(1), None, None, Data::String("two".into())),
        ("shared string escaped", XVal::SharedStr(2), None, None, Data::String("three & <3>".into())),
        ("inline string", XVal::InlineStr(XText::plain("inl")), None, None, Data::String("inl".into())),
        ("inline string with phonetic run", XVal::InlineStr(XText { runs: vec![XRun::T("kana".into()), XRun::RPh("\u{30ab}\u{30ca}".into()), XRun::PhoneticPr], enc: TextEnc::Entities }), None, None, Data::String("kana".into())),
        ("inline rich string", XVal::InlineStr(XText { runs: vec![XRun::R("a".into()), XRun::R("b".into())], enc: TextEnc::Entities }), None, None, Data::String("ab".into())),
        ("formula string", XVal::Str("res".into(), TextEnc::Entities), Some(XFormula::Plain("\"r\"&\"es\"".into())), None, Data::String("res".into())),
        // a formula whose cached string result is empty (=IF(..,"",..)): <v></v> is present, the value is the empty string
        ("formula string, empty result", XVal::Str(String::new(), TextEnc::Entities), Some(XFormula::Plain("IF(1,\"\",1)".into())), None, Data::String(String::new())),
        ("formula string with XML specials", XVal::Str("R&D <3> \u{e9}".into(), TextEnc::Entities), Some(XFormula::Plain("\"R&D\"".into())), None, Data::String("R&D <3> \u{e9}".into())),
        ("formula string with numeric references", XVal::Str("a&b\u{20ac}".into(), TextEnc::HexRefs), Some(XFormula::Plain("1".into())), None, Data::String("a&b\u{20ac}".into())),
        ("bool true", XVal::Bool(true), None, None, Data::Bool(true)),
        ("bool false", XVal::Bool(false), None, None, Data::Bool(false)),
        ("iso date", XVal::IsoDate("2021-03-04T05:06:07".into()), None, None, Data::DateTimeIso("2021-03-04T05:06:07".into())),
        ("number with formula", XVal::Num("-2.5E-3".into()), Some(XFormula::Plain("1/-400".into())), None, Data::Float(-0.0025)),
        ("big number", XVal::Num("1E+100".into()), None, None, Data::Float(1e100)),
        ("style-only empty cell", XVal::None, None, Some(0), Data::Empty),
        // cellXfs = [General, General, 14 (date), General, 2 (0.00)]: the style index selects the number format
        ("number, second General style", XVal::Num("3".into()), None, Some(1), Data::Float(3.0)),
        ("number, date style", XVal::Num("44197.5".into()), None, Some(2), Data::DateTime(calamine::ExcelDateTime::new(44197.5, calamine::ExcelDateTimeType::DateTime, false))),
        ("number, 0.00 style after a General one", XVal::Num("2.25".into()), None, Some(4), Data::Float(2.25)),
        ("formula without value", XVal::None, Some(XFormula::Plain("A1".into())), None, Data::Empty),
        // text stored in the sheet part itself keeps its leading and trailing white space (the shared kinds keep theirs in the table part)
        ("inline string with edge blanks", XVal::InlineStr(XText::plain("  pad\t ")), None, None, Data::String("  pad\t ".into())),
        ("formula string with edge blanks", XVal::Str(" x \n".into(), TextEnc::Entities), Some(XFormula::Plain("\" x \"&CHAR(10)".into())), None, Data::String(" x \n".into())),
        err("#DIV/0!", CellErrorType::Div0), err("#N/A", CellErrorType::NA), err("#NAME?", CellErrorType::Name), err("#NULL!", CellErrorType::Null),
        err("#NUM!", CellErrorType::Num), err("#REF!", CellErrorType::Ref), err("#VALUE!", CellErrorType::Value),
        // the eighth error constant of ECMA-376 18.17 (cached while external data is being fetched)
        err("#GETTING_DATA", CellErrorType::GettingData),
    ]
}

pub fn choose_enc(ch: &mut Chooser) -> XEnc {
    let ind = ch.choose("enc.xml_indented(no, LF line ends, CR LF line ends)", 3);
    XEnc {
        prefix: ch.flag("enc.prefix"),
        row_r: if ch.flag("enc.row_r_implicit") { RMode::Implicit } else { RMode::Explicit },
        cell_r: if ch.flag("enc.cell_r_implicit") { RMode::Implicit } else { RMode::Explicit },
        dim: ch.pick("enc.dimension", &[DimMode::Exact, DimMode::Absent, DimMode::TooSmall, DimMode::TooLarge, DimMode::StaleRows]),
        target: if ch.flag("enc.target_absolute") { TargetMode::AbsoluteXl } else { TargetMode::Relative },
        upper_parts: ch.flag("enc.part_name_case"),
        upper_root: ch.flag("enc.top_folder_case"),
        apply_nf: ch.choose("enc.applyNumberFormat(1,absent,0)", 3) as u8,
        method: if ch.flag("enc.stored") { Method::Stored } else { Method::Deflated },
        explicit_t_n: ch.flag("enc.explicit_t_n"),
        cell_attrs_reversed: ch.flag("enc.cell-attributes-in-the-order-t-s-r"),
        odd_table_part_names: false,
        lean_markup: ch.flag("enc.relationships-with-end-tags-and-optional-counts-omitted"),
        sheet_subfolder: ch.flag("enc.sheet-parts-in-a-sub-folder"),
        empty_rows: ch.flag("enc.empty_row_elements"),
        reorder_members: ch.flag("enc.member_order"),
        rid_shuffle: ch.flag("enc.relationship_ids_shuffled"),
        indent: ind > 0,
        crlf: ind == 2,
        comments: ch.flag("enc.xml_comments_between_elements"),
        extras: ch.flag("enc.optional_neighbours_of_sheetData"),
        bool_words: ch.flag("enc.booleans_spelled_true_false"),
        sst_count_refs: ch.flag("enc.sst_count_smaller_than_item_count"),
        numfmt_code_first: false,
        shared_members_carry_text: false,
        rels_target_first: ch.flag("enc.rels_target_before_type"),
        rows_never_r: ch.flag("enc.rows_never_carry_r"),
        split_text_nodes: ch.flag("enc.formula_text_split_by_cdata_and_comment"),
    }
}

struct Case { book: XBook, enc: XEnc, grids: Vec<(String, Grid)>, desc: serde_json::Value }

fn build(ch: &mut Chooser, anchor: (u32, u32), positions: &[(u32, u32)]) -> Case {
    let ks = kinds();
    let mut cells = vec![];
    let mut grid = Grid::new();
    let mut d = vec![];
    for p in positions {
        let (name, val, f, st, exp) = ks[ch.choose("cell-kind", ks.len())].clone();
        let (r, c) = (anchor.0 + p.0, anchor.1 + p.1);
        cells.push(XCell { row: r, col: c, val, style: st, formula: f });
        if !matches!(exp, Data::Empty) { grid.insert((r, c), exp); }
        d.push(json!([r, c, name]));
    }
    let two = ch.flag("second-sheet");
    // the 1904 date system, declared in workbookPr (spelled 1 or true), reaches date-styled numbers
    let d1904 = ch.flag("workbook-uses-1904-date-system");
    if d1904 { for v in grid.values_mut() { if let Data::DateTime(dt) = v { *v = Data::DateTime(calamine::ExcelDateTime::new(dt.as_f64(), calamine::ExcelDateTimeType::DateTime, true)); } } }
    let mut book = XBook { sheets: vec![XSheet::new("Sheet1", cells)], sst: sst(), date1904: if d1904 { Some(true) } else { None }, styles: Some(XStyles { num_fmts: vec![], cell_xfs: vec![0, 0, 14, 0, 2], cell_style_xfs: vec![0], omit_general_numfmt: ch.flag("styles.general-xf-without-numFmtId") }), ..Default::default() };
    let mut grids = vec![("Sheet1".to_string(), grid)];
    if two {
        book.sheets.push(XSheet::new("Other", vec![XCell::new(2, 1, XVal::Num("7".into())), XCell::new(3, 3, XVal::SharedStr(0))]));
        let mut g = Grid::new();
        g.insert((2, 1), Data::Float(7.0));
        g.insert((3, 3), Data::String("one".into()));
        grids.push(("Other".to_string(), g));
    }
    let enc = choose_enc(ch);
    let desc = json!({"cells": d, "second_sheet": two, "enc": format!("{enc:?}"), "general_xf_without_numFmtId": book.styles.as_ref().map(|s| s.omit_general_numfmt)});
    Case { book, enc, grids, desc }
}

/// classification of a failure by the encoding deviations in force (so keys stay coarse but telling)
fn enc_tag(e: &XEnc) -> String {
    let mut v = vec![];
    if e.prefix { v.push("prefix"); }
    if e.indent { v.push(if e.crlf { "indented-crlf" } else { "indented" }); }
    if e.row_r == RMode::Implicit { v.push("row-implicit"); }
    if e.cell_r == RMode::Implicit { v.push("cell-implicit"); }
    match e.dim { DimMode::Exact => {}, DimMode::Absent => v.push("dim-absent"), DimMode::TooSmall => v.push("dim-small"), DimMode::TooLarge => v.push("dim-large"), DimMode::StaleRows => v.push("dim-stale") }
    if e.target == TargetMode::AbsoluteXl { v.push("target-abs"); }
    if e.upper_parts { v.push("part-case"); }
    if e.upper_root { v.push("root-case"); }
    if e.method == Method::Stored { v.push("stored"); }
    if e.explicit_t_n { v.push("t=n"); }
    if e.empty_rows { v.push("empty-rows"); }
    if e.reorder_members { v.push("member-order"); }
    if e.rid_shuffle { v.push("rid-shuffle"); }
    if v.is_empty() { "default".into() } else if v.len() <= 2 { v.join("+") } else { format!("{}+{}+more", v[0], v[1]) }
}

fn run_case(rep: &Report, ch: &mut Chooser, anchor: (u32, u32), positions: &[(u32, u32)], local: &mut Vec<(u64, bool, u64)>) {
    let c = build(ch, anchor, positions);
    let bytes = write(&c.book, &c.enc);
    rep.eval(1);
    let input = hash_of(&bytes);
    let replay = |bytes: &Vec<u8>, c: &Case, ch: &Chooser| Replay { json: json!({"anchor": anchor, "positions": positions, "choices": ch.choices(), "case": c.desc}), files: vec![("xlsx".into(), bytes.clone())] };
    let res = guarded(|| -> Result<Vec<(String, Result<(), (String, String)>)>, String> {
        let mut wb: Xlsx<_> = Xlsx::new(Cursor::new(bytes.clone())).map_err(|e| format!("open: {e:?}"))?;
        let mut out = vec![];
        for (name, g) in &c.grids {
            let r = wb.worksheet_range(name).map_err(|e| format!("worksheet_range: {e:?}"))?;
            let mut res = check_range(&r, g);
            if res.is_ok() {
                let rr = wb.worksheet_range_ref(name).map_err(|e| format!("worksheet_range_ref: {e:?}"))?;
                res = check_range(&range_ref_to_data(&rr), g).map_err(|(k, d)| (format!("ref/{k}"), d));
            }
            out.push((name.clone(), res));
        }
        Ok(out)
    });
    let tag = enc_tag(&c.enc);
    let outcome;
    match res {
        Err(p) => {
            outcome = hash_of(&p);
            let site = normalise_site(p.rsplit(" @ ").next().unwrap_or(""));
            rep.fail(&format!("panic/{site}"), &format!("reader panicked: {p} [{tag}]"), || replay(&bytes, &c, ch));
        }
        Ok(Err(e)) => {
            outcome = hash_of(&e);
            let class: String = e.chars().take_while(|c| *c != '(' && *c != '{').collect();
            rep.fail(&format!("error/{}/{tag}", class.trim()), &format!("well-formed workbook rejected: {e}"), || replay(&bytes, &c, ch));
        }
        Ok(Ok(v)) => {
            outcome = hash_of(&format!("{:?}", c.grids));
            for (name, r) in v {
                if let Err((kind, detail)) = r {
                    rep.fail(&format!("{kind}/{tag}"), &format!("sheet {name}: {detail}"), || replay(&bytes, &c, ch));
                    break;
                }
            }
        }
    }
    local.push((input, !ch.is_default(), outcome));
    if rep.want_sample() && ch.choices().iter().filter(|x| **x != 0).count() >= 2 { rep.sample(json!({"anchor": anchor, "case": c.desc, "bytes": bytes.len()})); }
}

fn position_sets(k: usize) -> Vec<Vec<(u32, u32)>> {
    let all: Vec<(u32, u32)> = (0..3).flat_map(|r| (0..4).map(move |c| (r, c))).collect();
    let mut out = vec![];
    fn rec(all: &[(u32, u32)], start: usize, k: usize, cur: &mut Vec<(u32, u32)>, out: &mut Vec<Vec<(u32, u32)>>) {
        if cur.len() == k { out.push(cur.clone()); return; }
        for i in start..all.len() { cur.push(all[i]); rec(all, i + 1, k, cur, out); cur.pop(); }
    }
    rec(&all, 0, k, &mut vec![], &mut out);
    out
}

pub fn check(rep: &Report) {
    // differential check on the repository's own fixtures: both read paths agree on every sheet
    crate::props::corpus::range_vs_range_ref::<calamine::Xlsx<_>>(rep, &["xlsx", "xlsm", "xlam"]);
    let t = crate::thorough(&rep.tier);
    rep.rule("logical sheet = anchor {A1, AB6, ZZ100, XFA1048573} x every set of <= k cells in a 3x4 window (quick: every third two-cell set) x 32 cell kinds (+ optional second sheet); encoding = 28 variation points (Relationship elements with end tags, sheet parts in a sub-folder, cell attribute order, prefix, implicit row/cell r, dimension absent/exact/too small/too large/stale, target spelling, part-name and folder case, stored/deflated, t=n, empty row elements, member order, relationship ids not in sheet order, applyNumberFormat, .rels attribute order, rows never carrying r, text split by CDATA / comments, XML comments, optional neighbours of sheetData, boolean spelling, sst count, numFmt attribute order, General xf without numFmtId, indentation, 1904); per position set all choice vectors with <= 2 deviations (thorough: 3 on sheets of at most one cell) from (number cells, default encoding), plus the encoding product (quick: first 512, thorough: first 60000 encodings) on representative sheets; non-trivial = at least one non-default choice; distinct = by file bytes");
    rep.assume("generator emits only ECMA-376-legal variations listed in gen/xlsx.rs; r:-prefixed relationship ids; implicit r only where the cursor rule positions the element correctly");
    let kmax = if t { 3 } else { 2 };
    let dev = if t { 3 } else { 2 };
    let mut jobs: Vec<((u32, u32), Vec<(u32, u32)>)> = vec![];
    // quick: every third of the 66 two-cell position sets (in enumeration order); thorough: all of them
    for a in ANCHORS { for k in 0..=kmax { for (i, p) in position_sets(k).into_iter().enumerate() { if !t && k == 2 && i % 3 != 0 { continue; } jobs.push((a, p)); } } }
    let stats = Mutex::new(Stats::default());
    let deadline = std::time::Instant::now() + std::time::Duration::from_secs(if t { 1500 } else { 40 });
    let skipped = std::sync::atomic::AtomicU64::new(0);
    jobs.par_iter().for_each(|(a, p)| {
        if std::time::Instant::now() > deadline { skipped.fetch_add(1, std::sync::atomic::Ordering::Relaxed); return; }
        crate::engine::crumb::set_job(&format!("C01 anchor={a:?} positions={p:?}"));
        let mut st = Stats::default();
        let mut local = vec![];
        // thorough: three deviations on the empty and the single-cell sheets, two on the two- and three-cell sheets (with 27
        // variation points and 32 kinds a third deviation there does not finish inside the wall cap)
        let d = if p.len() >= 2 { 2 } else { dev };
        explore_deviations(|ch| run_case(rep, ch, *a, p, &mut local), d, &mut st);
        rep.cases_bulk(&local);
        stats.lock().unwrap().merge(&st);
        crate::engine::crumb::clear();
    });
    // full encoding product (8192 encodings) on representative single-cell / two-cell sheets with fixed kinds
    let reps: Vec<((u32, u32), Vec<(u32, u32)>)> = ANCHORS.iter().flat_map(|a| vec![(*a, vec![(0u32, 0u32)]), (*a, vec![(1, 2)]), (*a, vec![(0, 1), (2, 3)]), (*a, vec![(1, 0), (1, 1)])]).collect();
    reps.par_iter().for_each(|(a, p)| {
        let mut st = Stats::default();
        let mut local = vec![];
        crate::engine::crumb::set_job(&format!("C01 full-encoding-product anchor={a:?} positions={p:?} (choices exclude the pinned kinds)"));
        for kind in [0usize, 2, 3, 7] {
            // kinds fixed through a wrapper chooser: the first |p| choices are pinned
            let pinned: Vec<u32> = p.iter().map(|_| kind as u32).collect();
            explore_full(|ch| {
                // replay pinned kinds, then free encoding choices
                let mut inner = Chooser::new(&[pinned.clone(), ch_prefix(ch)].concat());
                run_case(rep, &mut inner, *a, p, &mut local);
                mirror(ch, &inner, pinned.len());
            }, &mut st, if t { 60_000 } else { 512 });
        }
        rep.cases_bulk(&local);
        stats.lock().unwrap().merge(&st);
        crate::engine::crumb::clear();
    });
    let st = stats.lock().unwrap();
    rep.add_states(st.nodes, st.edges);
    rep.trace(st.executions);
    rep.extra("choice_labels_covered", st.label_summary());
    rep.extra("deviation_bound_completed", json!(dev));
    rep.extra("max_cells_per_sheet", json!(kmax));
    let sk = skipped.load(std::sync::atomic::Ordering::Relaxed);
    if sk > 0 { rep.cap(&format!("wall cap: {sk} of {} position-set jobs not run", jobs.len())); } else if !t { rep.cap("quick tier: full encoding product capped at 512 encodings per representative sheet"); } else { rep.cap("thorough tier: the product of all 28 encoding choices (more than 10^8 per sheet) is cut at the first 60000 encodings per representative sheet and kind; the deviation-bounded exploration is complete"); }
}

// helper pair used to drive a pinned-prefix case from an outer full-product chooser
fn ch_prefix(ch: &Chooser) -> Vec<u32> { ch.pending_prefix() }
fn mirror(outer: &mut Chooser, inner: &Chooser, skip: usize) {
    for (i, (_, n)) in inner.trace.iter().enumerate().skip(skip) { outer.choose(inner.labels[i], *n as usize); }
}

pub fn replay(path: &str) -> i32 {
    let Ok(s) = std::fs::read_to_string(path) else { return 2 };
    let v: serde_json::Value = serde_json::from_str(&s).unwrap();
    if let Some(c) = crate::props::corpus::replay_fixture(&v) { return c; }
    let choices: Vec<u32> = v["choices"].as_array().unwrap().iter().map(|x| x.as_u64().unwrap() as u32).collect();
    let anchor = (v["anchor"][0].as_u64().unwrap() as u32, v["anchor"][1].as_u64().unwrap() as u32);
    let positions: Vec<(u32, u32)> = v["positions"].as_array().unwrap().iter().map(|p| (p[0].as_u64().unwrap() as u32, p[1].as_u64().unwrap() as u32)).collect();
    let mut outs = vec![];
    for _ in 0..2 {
        let mut o = String::new();
        run_one(|ch| {
            let c = build(ch, anchor, &positions);
            let bytes = write(&c.book, &c.enc);
            o = format!("{:?}", guarded(|| crate::props::dump::dump_xlsx(&bytes)));
        }, &choices);
        outs.push(o);
    }
    if outs[0] != outs[1] { eprintln!("MACHINERY: replay not deterministic"); return 2; }
    println!("case: {}\nrecorded: {}\nobserved now: {}", v["case"], v["what"], outs[0]);
    0
}
