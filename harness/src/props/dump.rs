//! Plain dumps of what the readers return for a file (used by replays).
use calamine::{Data, Ods, Range, Reader, Xls, Xlsb, Xlsx};
use std::io::Cursor;

fn dump_range(r: &Range<Data>) -> String {
    crate::model::sheet::range_digest(r)
}

pub fn dump_reader<R: Reader<Cursor<Vec<u8>>>>(bytes: &[u8]) -> String {
    let mut out = String::new();
    match R::new(Cursor::new(bytes.to_vec())) {
        Err(e) => out.push_str(&format!("open error: {e:?}")),
        Ok(mut wb) => {
            out.push_str(&format!("sheets={:?} names={:?}\n", wb.sheets_metadata(), wb.defined_names()));
            for n in wb.sheet_names() {
                match wb.worksheet_range(&n) {
                    Ok(r) => out.push_str(&format!("[{n}] {}\n", dump_range(&r))),
                    Err(e) => out.push_str(&format!("[{n}] error {e:?}\n")),
                }
                match wb.worksheet_formula(&n) {
                    Ok(r) => {
                        let s: Vec<String> = r.used_cells().map(|(i, j, v)| format!("({},{})={v:?}", i as u32 + r.start().unwrap().0, j as u32 + r.start().unwrap().1)).collect();
                        out.push_str(&format!("[{n}] formulas {}\n", s.join(";")));
                    }
                    Err(e) => out.push_str(&format!("[{n}] formula error {e:?}\n")),
                }
            }
        }
    }
    out
}
pub fn dump_xlsx(b: &[u8]) -> String { dump_reader::<Xlsx<_>>(b) }
pub fn dump_xlsb(b: &[u8]) -> String { dump_reader::<Xlsb<_>>(b) }
pub fn dump_xls(b: &[u8]) -> String { dump_reader::<Xls<_>>(b) }
pub fn dump_ods(b: &[u8]) -> String { dump_reader::<Ods<_>>(b) }
