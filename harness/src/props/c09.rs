//! C09 — serde deserialization maps rows to records faithfully.
//! E1: choice-tree exploration of small ranges x header configurations x target shapes on the real
//! `RangeDeserializer`, against a reference row mapper.
use crate::engine::choice::{estimate_product, explore_deviations, explore_full, run_one, Chooser, Stats};
use crate::engine::report::{Replay, Report};
use crate::engine::{guarded, hash_of};
use calamine::{CellErrorType, Data, DeError, Range, RangeDeserializerBuilder};
use rayon::prelude::*;
use serde::de::DeserializeOwned;
use serde_derive::Deserialize;
use serde_json::json;
use std::collections::BTreeMap;
use std::fmt::Debug;
use std::sync::Mutex;

type P = (u32, u32);

#[derive(Clone, Debug, PartialEq)]
enum E {
    Cell(String, P),
    Custom,
    HeaderNotFound(String),
    Other(String),
}

fn classify(e: &DeError) -> E {
    match e {
        DeError::CellError { err, pos } => E::Cell(format!("{err:?}"), *pos),
        DeError::Custom(_) => E::Custom,
        DeError::HeaderNotFound(h) => E::HeaderNotFound(h.clone()),
        o => E::Other(format!("{o:?}")),
    }
}

trait RefConv: Sized {
    fn conv(d: &Data, pos: P) -> Result<Self, E>;
}
fn cell_err(d: &Data, pos: P) -> Option<E> {
    if let Data::Error(e) = d { Some(E::Cell(format!("{e:?}"), pos)) } else { None }
}
impl RefConv for String {
    fn conv(d: &Data, pos: P) -> Result<Self, E> {
        match d {
            Data::String(s) => Ok(s.clone()),
            Data::Empty => Ok(String::new()),
            Data::Float(v) => Ok(v.to_string()),
            Data::Int(v) => Ok(v.to_string()),
            Data::Bool(v) => Ok(v.to_string()),
            Data::DateTimeIso(s) | Data::DurationIso(s) => Ok(s.clone()),
            Data::DateTime(v) => Ok(v.as_f64().to_string()),
            Data::Error(_) => Err(cell_err(d, pos).unwrap()),
        }
    }
}
impl RefConv for f64 {
    fn conv(d: &Data, pos: P) -> Result<Self, E> {
        match d {
            Data::Float(v) => Ok(*v),
            Data::Int(v) => Ok(*v as f64),
            Data::String(s) => s.parse::<f64>().map_err(|_| E::Custom),
            Data::Error(_) => Err(cell_err(d, pos).unwrap()),
            _ => Err(E::Custom),
        }
    }
}
impl RefConv for i64 {
    fn conv(d: &Data, pos: P) -> Result<Self, E> {
        match d {
            Data::Float(v) => Ok(*v as i64),
            Data::Int(v) => Ok(*v),
            Data::String(s) => s.parse::<i64>().map_err(|_| E::Custom),
            Data::Error(_) => Err(cell_err(d, pos).unwrap()),
            _ => Err(E::Custom),
        }
    }
}
impl RefConv for u8 {
    fn conv(d: &Data, pos: P) -> Result<Self, E> {
        match d {
            // numbers are cast (saturating for floats, truncating for integers); text must spell a value of the type itself
            Data::Float(v) => Ok(*v as u8),
            Data::Int(v) => Ok(*v as u8),
            Data::String(s) => s.parse::<u8>().map_err(|_| E::Custom),
            Data::Error(_) => Err(cell_err(d, pos).unwrap()),
            _ => Err(E::Custom),
        }
    }
}
impl RefConv for bool {
    fn conv(d: &Data, pos: P) -> Result<Self, E> {
        match d {
            Data::Bool(b) => Ok(*b),
            Data::String(s) => match s.as_str() {
                "TRUE" | "true" | "True" => Ok(true),
                "FALSE" | "false" | "False" => Ok(false),
                _ => Err(E::Custom),
            },
            Data::Empty => Ok(false),
            Data::Float(v) => Ok(*v != 0.0),
            Data::Int(v) => Ok(*v != 0),
            Data::Error(_) => Err(cell_err(d, pos).unwrap()),
            _ => Ok(true),
        }
    }
}
impl RefConv for Data {
    fn conv(d: &Data, pos: P) -> Result<Self, E> {
        match d {
            Data::Error(_) => Err(cell_err(d, pos).unwrap()),
            Data::DateTime(v) => Ok(Data::Float(v.as_f64())),
            Data::DateTimeIso(s) | Data::DurationIso(s) => Ok(Data::String(s.clone())),
            o => Ok(o.clone()),
        }
    }
}
/// a unit-variant enum: only strings that spell a variant convert; an error cell is still that cell's error
#[derive(Deserialize, Debug, PartialEq, Clone, Copy)]
enum Kw { #[serde(rename = "a")] A, #[serde(rename = "7")] Seven, #[serde(rename = "true")] True }
impl RefConv for Kw {
    fn conv(d: &Data, pos: P) -> Result<Self, E> {
        match d {
            Data::String(s) => match s.as_str() { "a" => Ok(Kw::A), "7" => Ok(Kw::Seven), "true" => Ok(Kw::True), _ => Err(E::Custom) },
            Data::Error(_) => Err(cell_err(d, pos).unwrap()),
            _ => Err(E::Custom),
        }
    }
}
impl<T: RefConv> RefConv for Option<T> {
    fn conv(d: &Data, pos: P) -> Result<Self, E> {
        if matches!(d, Data::Empty) { Ok(None) } else { T::conv(d, pos).map(Some) }
    }
}

struct RowCtx<'a> {
    cells: &'a [Data],
    cols: &'a [usize],
    headers: Option<&'a [String]>,
    row: u32,
    col0: u32,
}
impl RowCtx<'_> {
    fn pos(&self, j: usize) -> P { (self.row, self.col0 + j as u32) }
}

trait Target: DeserializeOwned + PartialEq + Debug {
    const NAME: &'static str;
    /// number of positional elements needed (0 = any)
    const ARITY: usize;
    const BY_NAME: bool;
    const FIELDS: &'static [&'static str] = &[];
    fn expect(c: &RowCtx) -> Result<Self, E>;
}
impl<T: RefConv + DeserializeOwned + PartialEq + Debug> Target for Vec<T> {
    const NAME: &'static str = "Vec";
    const ARITY: usize = 0;
    const BY_NAME: bool = false;
    fn expect(c: &RowCtx) -> Result<Self, E> {
        c.cols.iter().map(|j| T::conv(&c.cells[*j], c.pos(*j))).collect()
    }
}
macro_rules! tuple_target {
    ($n:expr, $name:expr, $($t:ident $i:tt),+) => {
        impl<$($t: RefConv + DeserializeOwned + PartialEq + Debug),+> Target for ($($t,)+) {
            const NAME: &'static str = $name;
            const ARITY: usize = $n;
            const BY_NAME: bool = false;
            fn expect(c: &RowCtx) -> Result<Self, E> {
                Ok(($($t::conv(&c.cells[c.cols[$i]], c.pos(c.cols[$i]))?,)+))
            }
        }
    };
}
tuple_target!(1, "tuple1", A 0);
tuple_target!(2, "tuple2", A 0, B 1);
tuple_target!(3, "tuple3", A 0, B 1, C 2);

#[derive(Deserialize, Debug, PartialEq)]
struct RecOpt { a: Option<String>, b: Option<f64>, c: Option<bool> }
#[derive(Deserialize, Debug, PartialEq)]
struct RecReq { b: i64, a: String }

/// by-name binding as serde's derived visit_map does it: keys come in column order for non-empty
/// cells; an error cell fails the record wherever it is; unknown keys are ignored.
fn bind<'a>(c: &'a RowCtx, fields: &[&str]) -> Result<BTreeMap<String, (&'a Data, P)>, E> {
    let mut m = BTreeMap::new();
    let h = c.headers.unwrap();
    for j in c.cols {
        let d = &c.cells[*j];
        if matches!(d, Data::Empty) { continue; }
        if let Some(e) = cell_err(d, c.pos(*j)) {
            // values of earlier known fields may already have failed; handled by caller order
            m.insert(format!("\u{0}err{j}"), (d, c.pos(*j)));
            let _ = e;
        }
        if fields.contains(&h[*j].as_str()) { m.insert(h[*j].clone(), (d, c.pos(*j))); }
    }
    Ok(m)
}
/// first failure in column order among non-empty cells (error cells always; known fields by conversion)
fn first_failure(c: &RowCtx, conv_fail: &dyn Fn(&str, &Data, P) -> Option<E>) -> Option<E> {
    let h = c.headers.unwrap();
    for j in c.cols {
        let d = &c.cells[*j];
        if matches!(d, Data::Empty) { continue; }
        if let Some(e) = cell_err(d, c.pos(*j)) { return Some(e); }
        if let Some(e) = conv_fail(h[*j].as_str(), d, c.pos(*j)) { return Some(e); }
    }
    None
}
impl Target for RecOpt {
    const NAME: &'static str = "struct{a:Option<String>,b:Option<f64>,c:Option<bool>}";
    const ARITY: usize = 3;
    const BY_NAME: bool = true;
    const FIELDS: &'static [&'static str] = &["a", "b", "c"];
    fn expect(c: &RowCtx) -> Result<Self, E> {
        if c.headers.is_none() {
            return Ok(RecOpt {
                a: RefConv::conv(&c.cells[c.cols[0]], c.pos(c.cols[0]))?,
                b: RefConv::conv(&c.cells[c.cols[1]], c.pos(c.cols[1]))?,
                c: RefConv::conv(&c.cells[c.cols[2]], c.pos(c.cols[2]))?,
            });
        }
        if let Some(e) = first_failure(c, &|k, d, p| match k {
            "a" => String::conv(d, p).err(),
            "b" => f64::conv(d, p).err(),
            "c" => bool::conv(d, p).err(),
            _ => None,
        }) { return Err(e); }
        let m = bind(c, Self::FIELDS)?;
        Ok(RecOpt {
            a: m.get("a").map(|(d, p)| String::conv(d, *p).unwrap()),
            b: m.get("b").map(|(d, p)| f64::conv(d, *p).unwrap()),
            c: m.get("c").map(|(d, p)| bool::conv(d, *p).unwrap()),
        })
    }
}
impl Target for RecReq {
    const NAME: &'static str = "struct{b:i64,a:String}";
    const ARITY: usize = 2;
    const BY_NAME: bool = true;
    const FIELDS: &'static [&'static str] = &["b", "a"];
    fn expect(c: &RowCtx) -> Result<Self, E> {
        if c.headers.is_none() {
            return Ok(RecReq {
                b: RefConv::conv(&c.cells[c.cols[0]], c.pos(c.cols[0]))?,
                a: RefConv::conv(&c.cells[c.cols[1]], c.pos(c.cols[1]))?,
            });
        }
        if let Some(e) = first_failure(c, &|k, d, p| match k {
            "a" => String::conv(d, p).err(),
            "b" => i64::conv(d, p).err(),
            _ => None,
        }) { return Err(e); }
        let m = bind(c, Self::FIELDS)?;
        match (m.get("b"), m.get("a")) {
            (Some((b, pb)), Some((a, pa))) => Ok(RecReq { b: i64::conv(b, *pb).unwrap(), a: String::conv(a, *pa).unwrap() }),
            _ => Err(E::Custom), // missing field
        }
    }
}
impl Target for BTreeMap<String, Data> {
    const NAME: &'static str = "BTreeMap<String,Data>";
    const ARITY: usize = 0;
    const BY_NAME: bool = true;
    fn expect(c: &RowCtx) -> Result<Self, E> {
        let h = c.headers.unwrap();
        let mut m = BTreeMap::new();
        for j in c.cols {
            let d = &c.cells[*j];
            if matches!(d, Data::Empty) { continue; }
            m.insert(h[*j].clone(), Data::conv(d, c.pos(*j))?);
        }
        Ok(m)
    }
}

fn cell_alphabet() -> Vec<Data> {
    vec![
        Data::Int(1), Data::Empty, Data::Float(1.5), Data::String("a".into()), Data::String("7".into()),
        Data::String("true".into()), Data::Bool(true), Data::Error(CellErrorType::Div0), Data::Float(0.0), Data::Error(CellErrorType::NA),
        // a zero-length string is a value, not an absent cell
        Data::String(String::new()),
        // an integer that no f64 holds exactly (2^53 + 1): integer targets get it unchanged
        Data::Int(9_007_199_254_740_993),
        // a fraction below one is still not zero
        Data::Float(0.5),
        // the title-case spelling of a boolean string
        Data::String("False".into()),
        // text that is a number, but not of every numeric type: fractional, negative, beyond u8
        Data::String("2.5".into()), Data::String("-1".into()), Data::String("300".into()),
    ]
}

#[derive(Clone, Copy, Debug, PartialEq)]
enum HMode { None, All, Custom, FromStruct }

struct Case {
    origin: P,
    h: usize,
    w: usize,
    mode: HMode,
    grid: Vec<Vec<Data>>,
    selection: Vec<String>,
    /// the builder reaches its final configuration directly (0) or through an earlier, different setting (1, 2)
    detour: u8,
    /// how the iterator is consumed: 0 next(); 1 nth(0); 2 two iterators advanced by nth(1), merged; 3 collect()
    walk: u8,
}

fn build_case<T: Target>(ch: &mut Chooser, origin: P, h: usize, w: usize, mode: HMode) -> Option<Case> {
    let names_seq = ["a", "b", "c", "x", " b ", "a ", "", "\u{a0}c\t", "x\r\n", "A", "B "];
    let names_by = ["a", "b", "c", "x", "A", "C"];
    let mut grid: Vec<Vec<Data>> = vec![];
    let mut hdr: Vec<String> = vec![];
    let has_hdr = mode != HMode::None;
    if has_hdr && h > 0 {
        // distinct (after trimming) header names per column
        for _ in 0..w {
            let pool: Vec<&str> = (if T::BY_NAME { &names_by[..] } else { &names_seq[..] })
                .iter().copied().filter(|n| !hdr.iter().any(|u| u.trim() == n.trim())).collect();
            let n = ch.pick("header-name", &pool);
            hdr.push(n.to_string());
        }
        grid.push(hdr.iter().map(|s| if s.is_empty() { Data::Empty } else { Data::String(s.clone()) }).collect());
    }
    let mut selection: Vec<String> = vec![];
    if mode == HMode::Custom {
        // ordered selection of header names: every ordered subset (<= 3 names, also the empty one), optionally padded, optionally one unknown
        let avail: Vec<String> = if h > 0 { hdr.iter().map(|s| s.trim().to_string()).collect() } else { vec!["a".into()] };
        // (the last option is the empty selection: no column at all)
        let k = if T::ARITY > 0 && !T::BY_NAME { T::ARITY } else { let n = avail.len().min(3); let i = ch.choose("selection-len", n + 1); if i == n { 0 } else { 1 + i } };
        if k > avail.len() { return None; }
        let mut left = avail.clone();
        for _ in 0..k {
            let i = ch.choose("selection-pick", left.len());
            selection.push(left.remove(i));
        }
        if k > 0 { match ch.choose("selection-variant", 4) {
            0 => {}
            1 => { selection[0] = format!("  {} ", selection[0]); }
            2 => { selection[0] = format!("\t{}\u{a0}\n", selection[0]); }
            _ => { let at = selection.len() - 1; selection[at] = "zz".into(); }
        } }
    }
    let alpha = cell_alphabet();
    let data_rows = if has_hdr { h.saturating_sub(1) } else { h };
    for _ in 0..data_rows {
        let mut row = vec![];
        for _ in 0..w { row.push(ch.pick("cell", &alpha)); }
        grid.push(row);
    }
    let detour = if matches!(mode, HMode::None | HMode::All) { ch.choose("builder-reaches-its-setting-through-another-one(direct, via the opposite setting, via a selection, Range::deserialize)", if mode == HMode::All { 4 } else { 3 }) as u8 } else { 0 };
    let walk = if data_rows >= 1 { ch.choose("iterator-consumed-by(next,nth(0),nth(1) from two iterators,collect)", 4) as u8 } else { 0 };
    Some(Case { origin, h, w, mode, grid, selection, detour, walk })
}

fn make_range(c: &Case) -> Range<Data> {
    if c.h == 0 { return Range::empty(); }
    let mut r = Range::new(c.origin, (c.origin.0 + c.h as u32 - 1, c.origin.1 + c.w as u32 - 1));
    for (i, row) in c.grid.iter().enumerate() {
        for (j, d) in row.iter().enumerate() {
            if !matches!(d, Data::Empty) { r.set_value((c.origin.0 + i as u32, c.origin.1 + j as u32), d.clone()); }
        }
    }
    r
}

type Obs = (Result<(), E>, Vec<(usize, Option<usize>)>, Vec<Result<String, E>>);

/// what the real code does
fn observe<T: Target>(c: &Case, range: &Range<Data>) -> Obs {
    let sel: Vec<&str> = c.selection.iter().map(|s| s.as_str()).collect();
    let make = || match c.mode {
        HMode::None if c.detour == 1 => RangeDeserializerBuilder::new().has_headers(true).has_headers(false).from_range::<Data, T>(range),
        HMode::None if c.detour == 2 => { static ONE: [&str; 1] = ["a"]; RangeDeserializerBuilder::with_headers(&ONE).has_headers(false).from_range::<Data, T>(range) }
        HMode::None => RangeDeserializerBuilder::new().has_headers(false).from_range::<Data, T>(range),
        HMode::All if c.detour == 1 => RangeDeserializerBuilder::new().has_headers(false).has_headers(true).from_range::<Data, T>(range),
        HMode::All if c.detour == 2 => { static ONE: [&str; 1] = ["a"]; RangeDeserializerBuilder::with_headers(&ONE).has_headers(true).from_range::<Data, T>(range) }
        HMode::All if c.detour == 3 => range.deserialize::<T>(),
        HMode::All => RangeDeserializerBuilder::new().from_range::<Data, T>(range),
        HMode::Custom => RangeDeserializerBuilder::with_headers(&sel).from_range::<Data, T>(range),
        HMode::FromStruct => RangeDeserializerBuilder::with_deserialize_headers::<T>().from_range::<Data, T>(range),
    };
    let mut it = match make() { Ok(i) => i, Err(e) => return (Err(classify(&e)), vec![], vec![]) };
    let mut hints = vec![];
    let mut items = vec![];
    let conv = |r: Result<T, calamine::DeError>| match r { Ok(v) => Ok(format!("{v:?}")), Err(e) => Err(classify(&e)) };
    match c.walk {
        // every way of advancing must yield what repeated next() yields
        1 => { while let Some(r) = it.nth(0) { items.push(conv(r)); if items.len() > 16 { break; } } return (Ok(()), hints, items); }
        2 => {
            let mut even = vec![]; let mut odd = vec![];
            if let Some(r) = it.next() { even.push(conv(r)); while let Some(r) = it.nth(1) { even.push(conv(r)); if even.len() > 16 { break; } } }
            if let Ok(mut it2) = make() { while let Some(r) = it2.nth(1) { odd.push(conv(r)); if odd.len() > 16 { break; } } }
            let mut o = odd.into_iter();
            for e in even { items.push(e); if let Some(x) = o.next() { items.push(x); } }
            return (Ok(()), hints, items);
        }
        3 => { items = it.by_ref().take(17).map(conv).collect(); return (Ok(()), hints, items); }
        _ => {}
    }
    loop {
        hints.push(it.size_hint());
        match it.next() {
            None => break,
            Some(Ok(v)) => items.push(Ok(format!("{v:?}"))),
            Some(Err(e)) => items.push(Err(classify(&e))),
        }
        if items.len() > 16 { break; }
    }
    hints.push(it.size_hint());
    (Ok(()), hints, items)
}

/// what the statement says
fn expect<T: Target>(c: &Case) -> (Result<(), E>, Vec<Result<String, E>>) {
    let has_hdr = c.mode != HMode::None;
    if c.h == 0 { return (Ok(()), vec![]); }
    let raw_headers: Option<Vec<String>> = if has_hdr {
        Some(c.grid[0].iter().map(|d| String::conv(d, (0, 0)).unwrap()).collect())
    } else { None };
    let sel: Option<Vec<String>> = match c.mode {
        HMode::Custom => Some(c.selection.clone()),
        HMode::FromStruct => Some(T::FIELDS.iter().map(|s| s.to_string()).collect()),
        _ => None,
    };
    let cols: Vec<usize> = match &sel {
        None => (0..c.w).collect(),
        Some(sel) => {
            let hs = raw_headers.as_ref().unwrap();
            let mut v = vec![];
            for s in sel {
                match hs.iter().position(|h| h.trim() == s.trim()) {
                    Some(i) => v.push(i),
                    None => return (Err(E::HeaderNotFound(s.trim().to_string())), vec![]),
                }
            }
            v
        }
    };
    let first = if has_hdr { 1 } else { 0 };
    let mut items = vec![];
    for i in first..c.h {
        let ctx = RowCtx { cells: &c.grid[i], cols: &cols, headers: raw_headers.as_deref(), row: c.origin.0 + i as u32, col0: c.origin.1 };
        items.push(T::expect(&ctx).map(|v| format!("{v:?}")));
    }
    (Ok(()), items)
}

fn applicable<T: Target>(w: usize, mode: HMode) -> bool {
    match mode {
        HMode::None => !T::BY_NAME && (T::ARITY == 0 || T::ARITY == w) || (T::BY_NAME && T::ARITY == w && T::ARITY > 0),
        HMode::All => T::BY_NAME || T::ARITY == 0 || T::ARITY == w,
        HMode::Custom => T::ARITY == 0 || T::ARITY <= w || T::BY_NAME,
        HMode::FromStruct => !T::FIELDS.is_empty(),
    }
}

fn run_case<T: Target>(rep: &Report, ch: &mut Chooser, origin: P, h: usize, w: usize, mode: HMode, local: &mut Vec<(u64, bool, u64)>, dry: bool) {
    let Some(c) = build_case::<T>(ch, origin, h, w, mode) else { return };
    // a header-less struct/tuple needs exactly ARITY positional columns; custom selections for tuples have ARITY names
    if dry { return; }
    let range = make_range(&c);
    rep.eval(1);
    // Range::headers() is the first row of the range, cell by cell in its display form (None for a range without rows)
    {
        let got = guarded(|| range.headers());
        let exp = if c.h == 0 { None } else { Some((0..c.w).map(|j| range.get((0, j)).map(|d| d.to_string()).unwrap_or_default()).collect::<Vec<_>>()) };
        if !matches!(&got, Ok(g) if *g == exp) {
            rep.fail("range-headers", &format!("Range::headers() gave {got:?}, the first row is {exp:?}"), || Replay { json: json!({"choices": ch.choices(), "outer": [T::NAME, origin, h, w, format!("{mode:?}")]}), files: vec![] });
        }
    }
    let desc = || json!({"target": T::NAME, "origin": c.origin, "h": c.h, "w": c.w, "mode": format!("{:?}", c.mode), "selection": c.selection,
        "grid": c.grid.iter().map(|r| r.iter().map(|d| format!("{d:?}")).collect::<Vec<_>>()).collect::<Vec<_>>()});
    let input_hash = hash_of(&format!("{}", desc()));
    let obs = match guarded(|| observe::<T>(&c, &range)) {
        Ok(o) => o,
        Err(p) => {
            local.push((input_hash, !ch.is_default(), hash_of(&p)));
            let site = crate::engine::normalise_site(p.rsplit(" @ ").next().unwrap_or(""));
            rep.fail(&format!("panic/{site}"), &format!("deserialization panicked: {p}"), || Replay { json: json!({"case": desc(), "choices": ch.choices(), "outer": [T::NAME, origin, h, w, format!("{mode:?}")]}), files: vec![] });
            return;
        }
    };
    let (exp_build, exp_items) = expect::<T>(&c);
    local.push((input_hash, !ch.is_default(), hash_of(&format!("{obs:?}"))));
    if rep.want_sample() && ch.choices().iter().filter(|x| **x != 0).count() >= 2 && c.h >= 2 {
        rep.sample(json!({"case": desc(), "items": format!("{:?}", obs.2)}));
    }
    let mut fail = |key: String, what: String| {
        rep.fail(&key, &what, || Replay { json: json!({"case": desc(), "choices": ch.choices(), "outer": [T::NAME, origin, h, w, format!("{mode:?}")], "expected": format!("{exp_items:?}"), "observed": format!("{obs:?}")}), files: vec![] });
    };
    if obs.0 != exp_build {
        fail(format!("build/{:?}", c.mode), format!("from_range gave {:?}, expected {:?}", obs.0, exp_build));
        return;
    }
    if exp_build.is_err() { return; }
    // one item per data row, in order
    if obs.2.len() != exp_items.len() {
        fail(format!("count/{:?}", c.mode), format!("{} items, expected {}", obs.2.len(), exp_items.len()));
        return;
    }
    for (i, (o, e)) in obs.2.iter().zip(exp_items.iter()).enumerate() {
        if o != e {
            let kind = match (o, e) {
                (Err(E::Cell(k1, p1)), Err(E::Cell(k2, p2))) => if k1 != k2 { "cellerror-kind" } else if p1.0 != p2.0 { "cellerror-row" } else { "cellerror-col" },
                (Ok(_), Ok(_)) => "value",
                (Ok(_), Err(_)) => "missing-error",
                (Err(_), Ok(_)) => "spurious-error",
                _ => "error-class",
            };
            fail(format!("item/{kind}/{}", if T::BY_NAME && c.mode != HMode::None { "by-name" } else { "positional" }), format!("row {i}: got {o:?}, expected {e:?}"));
            return;
        }
    }
    // size_hint brackets the number of items still to come, before every next() and after the end
    let total = exp_items.len();
    for (k, (lo, hi)) in obs.1.iter().enumerate() {
        let remaining = total.saturating_sub(k);
        if *lo > remaining || hi.map(|h| h < remaining).unwrap_or(false) {
            fail(format!("size_hint/{}", if *lo > remaining { "lower-too-big" } else { "upper-too-small" }), format!("before item {k}: size_hint=({lo},{hi:?}) but {remaining} items remain"));
            return;
        }
    }
}

fn explore_target<T: Target>(rep: &Report, stats: &Mutex<Stats>, thorough: bool) {
    let mut jobs = vec![];
    for origin in [(0u32, 0u32), (2, 3)] {
        for h in 0..=3usize {
            for w in 1..=3usize {
                for mode in [HMode::None, HMode::All, HMode::Custom, HMode::FromStruct] {
                    if applicable::<T>(w, mode) { jobs.push((origin, h, w, mode)); }
                }
            }
        }
    }
    jobs.par_iter().for_each(|(origin, h, w, mode)| {
        crate::engine::crumb::set_job(&format!("C09 target={} origin={origin:?} h={h} w={w} mode={mode:?}", T::NAME));
        let mut st = Stats::default();
        let mut local = vec![];
        let est = estimate_product(|ch| run_case::<T>(rep, ch, *origin, *h, *w, *mode, &mut vec![], true));
        if est <= if thorough { 60_000.0 } else { 1_500.0 } {
            explore_full(|ch| run_case::<T>(rep, ch, *origin, *h, *w, *mode, &mut local, false), &mut st, u64::MAX);
            rep.extra_add("jobs_full_product", 1);
        } else {
            explore_deviations(|ch| run_case::<T>(rep, ch, *origin, *h, *w, *mode, &mut local, false), if thorough { 3 } else { 2 }, &mut st);
            rep.extra_add(if thorough { "jobs_deviation_bound_3" } else { "jobs_deviation_bound_2" }, 1);
        }
        rep.cases_bulk(&local);
        crate::engine::crumb::clear();
        stats.lock().unwrap().merge(&st);
    });
}

/// Real sheets as ranges: every sheet of every fixture workbook of the repository is deserialized without headers into
/// Vec<Data>; one item per row in order, each equal to the reference conversion of the row's cells, an error cell failing its own
/// row with its kind and absolute position, size_hint bracketing what is left.
fn corpus_rows(rep: &Report) {
    use calamine::Reader;
    let files = crate::props::corpus::fixtures(&crate::props::corpus::ALL);
    let sheets = std::sync::atomic::AtomicU64::new(0);
    let rows_seen = std::sync::atomic::AtomicU64::new(0);
    files.par_iter().for_each(|(fname, bytes)| {
        crate::engine::crumb::set_case(&format!("C09 fixture {fname}"));
        let r = guarded(|| -> Vec<(String, String)> {
            let mut bad = vec![];
            let Ok(mut wb) = calamine::open_workbook_auto_from_rs(std::io::Cursor::new(bytes.clone())) else { return bad };
            for name in wb.sheet_names() {
                let Ok(range) = wb.worksheet_range(&name) else { continue };
                let (Some(s), h, w) = (range.start(), range.height(), range.width()) else { continue };
                if h * w > 200_000 { continue; }
                sheets.fetch_add(1, std::sync::atomic::Ordering::Relaxed);
                let Ok(mut it) = RangeDeserializerBuilder::new().has_headers(false).from_range::<Data, Vec<Data>>(&range) else { bad.push(("build".into(), format!("sheet {name:?}: from_range failed"))); continue };
                let mut k = 0usize;
                loop {
                    let (lo, hi) = it.size_hint();
                    let left = h - k.min(h);
                    if lo > left || hi.map(|x| x < left).unwrap_or(false) { bad.push(("size_hint".into(), format!("sheet {name:?} before row {k}: size_hint ({lo},{hi:?}), {left} rows left"))); break; }
                    let Some(item) = it.next() else { break };
                    if k >= h { bad.push(("count".into(), format!("sheet {name:?}: more items than rows ({h})"))); break; }
                    let cells: Vec<&Data> = (0..w).map(|j| range.get((k, j)).unwrap()).collect();
                    let exp: Result<Vec<Data>, E> = cells.iter().enumerate().map(|(j, d)| <Data as RefConv>::conv(d, (s.0 + k as u32, s.1 + j as u32))).collect();
                    let got = item.map_err(|e| classify(&e));
                    if got != exp { bad.push((if exp.is_err() { "cell-error" } else { "row" }.into(), format!("sheet {name:?} row {k}: got {}, expected {}", format!("{got:?}").chars().take(160).collect::<String>(), format!("{exp:?}").chars().take(160).collect::<String>()))); break; }
                    k += 1;
                }
                if k != h && bad.is_empty() { bad.push(("count".into(), format!("sheet {name:?}: {k} items for {h} rows"))); }
                rows_seen.fetch_add(k as u64, std::sync::atomic::Ordering::Relaxed);
            }
            bad
        });
        rep.eval(1);
        let replay = || Replay { json: json!({"fixture": fname}), files: vec![] };
        match r {
            Err(p) => { let site = crate::engine::normalise_site(p.rsplit(" @ ").next().unwrap_or("")); rep.fail(&format!("corpus/panic/{site}"), &format!("{fname}: panicked: {p}"), replay); }
            Ok(bad) => { for (k, d) in &bad { rep.fail(&format!("corpus/{k}"), &format!("{fname}: {d}"), replay); } rep.case(crate::engine::hash_of(&("corpus", fname)), true, crate::engine::hash_of(&format!("{bad:?}"))); }
        }
        crate::engine::crumb::clear();
    });
    rep.extra("fixture_files", json!(files.len()));
    rep.extra("fixture_sheets_deserialized", json!(sheets.load(std::sync::atomic::Ordering::Relaxed)));
    rep.extra("fixture_rows_deserialized", json!(rows_seen.load(std::sync::atomic::Ordering::Relaxed)));
}

pub fn check(rep: &Report) {
    corpus_rows(rep);
    rep.rule("choice tree: origin {(0,0),(2,3)} x height 0..3 x width 1..3 x header mode {none, all, custom selection, struct fields} x header names (also names that differ by letter case only) / ordered selections (padded with blanks or tab / no-break space / newline, unknown) x iterator consumed by next / nth(0) / nth(1) / collect x cell contents over 10 values x 15 target shapes (incl. a unit-variant enum, plain and optional); full product when the job's choice product is <= 1500 (thorough 60000), else all vectors with <= 2 (thorough 3) deviations from the default; non-trivial = at least one non-default choice; distinct = by printed case");
    rep.assume("reference row mapper in props/c09.rs (documented conversion rules); Custom error messages are not compared, only the error class; CellError kind and absolute position are compared exactly");
    rep.assume("padded header cells are only combined with positional targets (the statement promises trimming for header selection, not for map keys)");
    let t = crate::thorough(&rep.tier);
    let stats = Mutex::new(Stats::default());
    explore_target::<Vec<Data>>(rep, &stats, t);
    explore_target::<Vec<String>>(rep, &stats, t);
    explore_target::<Vec<Option<f64>>>(rep, &stats, t);
    explore_target::<Vec<bool>>(rep, &stats, t);
    explore_target::<Vec<i64>>(rep, &stats, t);
    explore_target::<Vec<u8>>(rep, &stats, t);
    explore_target::<(Data,)>(rep, &stats, t);
    explore_target::<(String, Option<i64>)>(rep, &stats, t);
    explore_target::<(Data, String, Option<f64>)>(rep, &stats, t);
    explore_target::<(bool, f64)>(rep, &stats, t);
    explore_target::<Vec<Option<Kw>>>(rep, &stats, t);
    explore_target::<(Kw, Data)>(rep, &stats, t);
    explore_target::<RecOpt>(rep, &stats, t);
    explore_target::<RecReq>(rep, &stats, t);
    explore_target::<BTreeMap<String, Data>>(rep, &stats, t);
    let st = stats.lock().unwrap();
    rep.add_states(st.nodes, st.edges);
    rep.trace(st.executions);
    rep.extra("choice_labels_covered", st.label_summary());
    rep.extra("max_depth", json!(st.max_depth));
    rep.extra("uncovered_alternatives", json!(st.uncovered()));
    rep.exhaustive(true);
}

pub fn replay(path: &str) -> i32 {
    let Ok(s) = std::fs::read_to_string(path) else { return 2 };
    let v: serde_json::Value = serde_json::from_str(&s).unwrap();
    if let Some(c) = crate::props::corpus::replay_fixture(&v) { return c; }
    let choices: Vec<u32> = v["choices"].as_array().unwrap().iter().map(|x| x.as_u64().unwrap() as u32).collect();
    let o = &v["outer"];
    let origin = (o[1][0].as_u64().unwrap() as u32, o[1][1].as_u64().unwrap() as u32);
    let (h, w) = (o[2].as_u64().unwrap() as usize, o[3].as_u64().unwrap() as usize);
    let mode = match o[4].as_str().unwrap() { "None" => HMode::None, "All" => HMode::All, "Custom" => HMode::Custom, _ => HMode::FromStruct };
    fn go<T: Target>(choices: &[u32], origin: P, h: usize, w: usize, mode: HMode) -> String {
        let mut out = String::new();
        run_one(|ch| {
            if let Some(c) = build_case::<T>(ch, origin, h, w, mode) {
                let r = make_range(&c);
                out = format!("observed={:?}\nexpected={:?}", guarded(|| observe::<T>(&c, &r)), expect::<T>(&c));
            }
        }, choices);
        out
    }
    macro_rules! disp { ($($t:ty),+) => {{ let name = o[0].as_str().unwrap(); let mut r = None; $( if r.is_none() && name == <$t as Target>::NAME && (<$t as Target>::ARITY == 0 || true) { r = Some((go::<$t>(&choices, origin, h, w, mode), go::<$t>(&choices, origin, h, w, mode))); } )+ r }}; }
    // NAME is shared by all Vec<_> and tuples of one arity; replay uses the recorded printed case to disambiguate
    let r = disp!(Vec<Data>, (Data,), (String, Option<i64>), (Data, String, Option<f64>), RecOpt, RecReq, BTreeMap<String, Data>);
    match r {
        Some((a, b)) => { if a != b { eprintln!("MACHINERY: replay not deterministic"); return 2; } println!("case: {}\n{a}\nrecorded: {}", v["case"], v["what"]); 0 }
        None => { println!("recorded case: {}", v); 0 }
    }
}
