//! C18 — VBA modules are extracted byte-exact from the compressed project.
//! (a) every source over {a,b} up to length 9 (quick 8) x every valid tokenisation, copy tokens at every
//!     position 1..4095 in every offset-width regime, raw and multi-chunk containers, through the real
//!     decompressor (hook) vs the source / an independent reference expansion;
//! (b) E1: project layouts embedded in xlsm, xlsb and xls.
use crate::engine::choice::{explore_deviations, run_one, Chooser, Stats};
use crate::engine::report::{Replay, Report};
use crate::engine::{guarded, hash_of, normalise_site};
use crate::gen::ovba::*;
use crate::gen::zipw::Method;
use crate::gen::{biff8, cfb, xlsb, xlsx};
use calamine::{Reader, Xls, Xlsb, Xlsx};
use rayon::prelude::*;
use serde_json::json;
use std::io::Cursor;
use std::sync::Mutex;

fn hex(b: &[u8]) -> String { b.iter().take(96).map(|x| format!("{x:02x}")).collect() }

fn check_container(rep: &Report, cont: &[u8], expected: &[u8], key: &str, what: &str) -> u64 {
    let got = guarded(|| calamine::verif::cfb::decompress(cont));
    let ok = matches!(&got, Ok(Ok(v)) if v == expected);
    if !ok {
        let kind = match &got { Ok(Ok(v)) => if v.len() != expected.len() { "length" } else { "content" }, Ok(Err(_)) => "error", Err(_) => "panic" };
        let detail = match &got { Ok(Ok(v)) => format!("{} bytes, first difference at {:?}", v.len(), v.iter().zip(expected.iter()).position(|(a, b)| a != b)), Ok(Err(e)) => e.clone(), Err(p) => p.clone() };
        let site = if let Err(p) = &got { normalise_site(p.rsplit(" @ ").next().unwrap_or("")) } else { String::new() };
        let c = cont.to_vec();
        rep.fail(&format!("decompress/{kind}/{key}{site}"), &format!("{what}: {detail} (expected {} bytes)", expected.len()), || Replay { json: json!({"container_hex_prefix": hex(&c), "expected_len": expected.len(), "what": what}), files: vec![("bin".into(), c.clone())] });
    }
    hash_of(&format!("{:?}", got.map(|r| r.map(|v| hash_of(&v)))))
}

/// every tokenisation of `src` (single chunk)
fn tokenisations(src: &[u8], p: usize, cur: &mut Vec<Tok>, f: &mut dyn FnMut(&[Tok])) {
    if p == src.len() { f(cur); return; }
    cur.push(Tok::Lit(src[p]));
    tokenisations(src, p + 1, cur, f);
    cur.pop();
    if p >= 1 {
        let maxl = max_copy_len(p).min(src.len() - p);
        for off in 1..=p {
            let mut l = 0;
            while l < maxl && src[p + l] == src[p + l - off] { l += 1; }
            for len in 3..=l {
                cur.push(Tok::Copy { offset: off as u16, len: len as u16 });
                tokenisations(src, p + len, cur, f);
                cur.pop();
            }
        }
    }
}

fn sweep_tokenisations(rep: &Report, maxlen: usize) {
    let sources: Vec<Vec<u8>> = (1..=maxlen).flat_map(|n| (0..(1u32 << n)).map(move |bits| (0..n).map(|i| if bits & (1 << i) != 0 { b'b' } else { b'a' }).collect::<Vec<u8>>())).collect();
    let total = std::sync::atomic::AtomicU64::new(0);
    sources.par_iter().for_each(|src| {
        crate::engine::crumb::set_case(&format!("C18 tokenisations of {:?}", String::from_utf8_lossy(src)));
        let mut local = vec![];
        let mut n = 0u64;
        tokenisations(src, 0, &mut vec![], &mut |t: &[Tok]| {
            n += 1;
            let cont = container(&[chunk(t)]);
            let copies = t.iter().filter(|x| matches!(x, Tok::Copy { .. })).count();
            let o = check_container(rep, &cont, src, &format!("tokenisation/copies={}", copies.min(3)), &format!("source {:?} as {:?}", String::from_utf8_lossy(src), t));
            local.push((hash_of(&cont), copies > 0, o));
        });
        total.fetch_add(n, std::sync::atomic::Ordering::Relaxed);
        rep.cases_bulk(&local);
        crate::engine::crumb::clear();
    });
    let n = total.load(std::sync::atomic::Ordering::Relaxed);
    rep.eval(n);
    rep.add_states(n, n);
    rep.extra("tokenisations_checked", json!(n));
    rep.sample(json!({"source": "abababab", "tokenisation": format!("{:?}", [Tok::Lit(b'a'), Tok::Lit(b'b'), Tok::Copy { offset: 2, len: 6 }]), "container_hex": hex(&container(&[chunk(&[Tok::Lit(b'a'), Tok::Lit(b'b'), Tok::Copy { offset: 2, len: 6 }])]))}));
    rep.extra("sources", json!(sources.len()));
}

/// copy tokens at every decompressed position 1..4095 of a chunk: all offset-width regimes and boundaries
fn sweep_positions(rep: &Report) {
    let ps: Vec<usize> = (1..4096).collect();
    let n = std::sync::atomic::AtomicU64::new(0);
    ps.par_chunks(64).for_each(|chunkp| {
        let mut local = vec![];
        for p in chunkp {
            crate::engine::crumb::set_case(&format!("C18 copy token at position {p}"));
            // prefix of p bytes: 7 literals of period 7 then maximal copies (offset 7)
            let mut toks: Vec<Tok> = vec![];
            let mut pos = 0usize;
            while pos < *p {
                if pos < 7 { toks.push(Tok::Lit(b"abcdefg"[pos])); pos += 1; }
                else { let l = max_copy_len(pos).min(p - pos); if l >= 3 { toks.push(Tok::Copy { offset: 7, len: l as u16 }); pos += l; } else { toks.push(Tok::Lit(b"xyz"[pos % 3])); pos += 1; } }
            }
            for (off, len) in [(1usize, 3usize), (*p, 3), (1, max_copy_len(*p)), (*p, max_copy_len(*p)), ((*p + 1) / 2, 4), (1usize << (offset_bits(*p) - 1), 3)] {
                if off == 0 || off > *p { continue; }
                let len = len.min(4096 - p);
                if len < 3 { continue; }
                let mut t = toks.clone();
                t.push(Tok::Copy { offset: off as u16, len: len as u16 });
                t.push(Tok::Lit(b'!'));
                if expand(&t).len() > 4096 { t.pop(); }
                let exp = expand(&t);
                let cont = container(&[chunk(&t)]);
                let o = check_container(rep, &cont, &exp, &format!("copy-at-position/offset-bits={}", offset_bits(*p)), &format!("copy token offset {off} length {len} at position {p}"));
                local.push((hash_of(&cont), true, o));
                n.fetch_add(1, std::sync::atomic::Ordering::Relaxed);
            }
        }
        rep.cases_bulk(&local);
        crate::engine::crumb::clear();
    });
    let k = n.load(std::sync::atomic::Ordering::Relaxed);
    rep.eval(k);
    rep.add_states(k, k);
    rep.extra("copy_position_cases", json!(k));
}

fn source_of(len: usize, kind: u8) -> Vec<u8> {
    // kind 0: highly redundant text; 1: low redundancy (LCG bytes); 2: mixed
    let mut v = Vec::with_capacity(len);
    let mut x = 12345u32;
    let line = b"Sub Demo()\r\n    MsgBox \"caf\xe9\"\r\nEnd Sub\r\n";
    for i in 0..len {
        x = x.wrapping_mul(1103515245).wrapping_add(12345);
        v.push(match kind { 0 => line[i % line.len()], 1 => (x >> 16) as u8, 3 => { let b = (x >> 16) as u8; if b >= 0x80 { b'?' } else { b } }, _ => if (i / 97) % 2 == 0 { line[i % line.len()] } else { (x >> 16) as u8 } });
    }
    v
}

fn sweep_chunks(rep: &Report) {
    let mut n = 0u64;
    for len in [0usize, 1, 2, 3, 4095, 4096, 4097, 8191, 8192, 8193, 12288, 20000] {
        for kind in 0..4u8 {
            for mode in 0..3u8 {
                // an incompressible partial last chunk longer than ~3600 bytes has no exact encoding (it would be padded to a raw chunk)
                if kind != 0 && len % 4096 > 3500 { continue; }
                if mode == 1 && len % 4096 > 3500 { continue; }
                let src = source_of(len, kind);
                let cont = compress(&src, mode);
                let o = check_container(rep, &cont, &src, &format!("multi-chunk/mode={mode}"), &format!("source of {len} bytes (kind {kind}) compressed with mode {mode} (0 greedy, 1 literal-only, 2 raw where possible)"));
                rep.case(hash_of(&cont), len > 4096, o);
                n += 1;
            }
        }
    }
    // two-chunk containers whose first (full, 4096-byte) chunk has every token count modulo 8
    for k in 1..=72usize {
        let mut toks: Vec<Tok> = (0..k).map(|i| Tok::Lit(b"0123456789abcdefghijklmnopqrstuvwxyzABCDEFGHIJKLMNOPQRSTUVWXYZ-+*/=<>()[]"[i])).collect();
        let mut pos = k;
        while pos < 4096 { let l = max_copy_len(pos).min(4096 - pos); if l >= 3 { toks.push(Tok::Copy { offset: k.min(pos) as u16, len: l as u16 }); pos += l; } else { toks.push(Tok::Lit(b'.')); pos += 1; } }
        let second: Vec<Tok> = b"tail of the module".iter().map(|b| Tok::Lit(*b)).collect();
        let mut exp = expand(&toks);
        exp.extend(expand(&second));
        let cont = container(&[chunk(&toks), chunk(&second)]);
        let o = check_container(rep, &cont, &exp, &format!("two-chunks/first-chunk-tokens-mod-8={}", toks.len() % 8), &format!("first chunk of {} tokens (4096 bytes) followed by a second chunk", toks.len()));
        rep.case(hash_of(&cont), true, o);
        n += 1;
    }
    rep.eval(n);
    rep.add_states(n, n);
    rep.extra("multi_chunk_cases", json!(n));
}

// ------------------------------------------------------------------------------------------------
struct PCase { bytes: Vec<u8>, fmt: &'static str, project: VProject, desc: serde_json::Value }

fn build(ch: &mut Chooser, fmt: &'static str, thorough: bool) -> PCase {
    let cp: u16 = if thorough && ch.flag("codepage-932") { 932 } else { 1252 };
    let nmod = [1usize, 0, 2, 3][ch.choose("module-count", 4)];
    let names: Vec<&str> = if cp == 932 { vec!["Module1", "\u{30E2}\u{30B8}\u{30E5}\u{30FC}\u{30EB}", "Sheet1"] } else if ch.flag("module-names-collide-with-project-streams-up-to-case") { vec!["Project", "Dir", "vba"] } else { vec!["Module1", "M\u{f3}dulo 2", "ThisWorkbook"] };
    let mut modules = vec![];
    for i in 0..nmod {
        let len = [40usize, 0, 5000, 4096, 9000][ch.choose("module-source-length", 5)];
        let mut src = source_of(len, (i % 3) as u8);
        if cp == 932 { for b in src.iter_mut() { if *b >= 0x80 { *b = b'?'; } } }
        // bytes above 0x7F that happen to form well-formed UTF-8: still text in the project's code page
        if cp == 1252 && ch.flag("module-bytes-form-valid-utf8") { src = b"' caf\xc3\xa9 \xd0\xb0\xc2\xa3\r\nSub A()\r\nEnd Sub\r\n".to_vec(); }
        modules.push(VModule { name: names[i].to_string(), stream_name: if ch.flag("stream-name-differs") { format!("Strm{i}") } else { names[i].to_string() }, source: src,
            text_offset: [0usize, 5, 1000, 65_536, 70_000][ch.choose("module-text-offset", 5)], mode: ch.choose("module-compression", 3) as u8, class_module: ch.flag("class-module"), read_only: ch.flag("module-readonly"), private: ch.flag("module-private") });
    }
    let nref = ch.choose("reference-count", 4);
    let mut refs = vec![];
    for i in 0..nref {
        let kind = match ch.choose("reference-kind", 5) { 0 => RefKind::Registered, 1 => RefKind::Project, 2 => RefKind::Control { original: false, extended_name: false }, 3 => RefKind::Control { original: true, extended_name: false }, _ => RefKind::Control { original: true, extended_name: true } };
        refs.push(VRef { name: ["stdole", "Office", "MSForms"][i].to_string(), kind });
    }
    let project = VProject { codepage: cp, modules, refs, compat_version: ch.flag("compat-version-record"), descriptive: ch.flag("project-description-helpfile-constants-non-empty") };
    let lay = cfb::Layout { v4: ch.flag("cfb.v4"), order: ch.pick("cfb.order", &[cfb::Order::Sequential, cfb::Order::Reversed, cfb::Order::Interleaved]), dir_reversed: ch.flag("cfb.dir-reversed"), name_garbage: ch.flag("cfb.stale-bytes-after-name-terminator"), ..Default::default() };
    let bytes = match fmt {
        "xls" => {
            let mut stream = biff8::workbook_stream(&biff8::BBook { sheets: vec![biff8::BSheet::new("S", vec![biff8::BCell::Number { r: 0, c: 0, xf: 0, v: 1.0 }])], ..Default::default() });
            if ch.flag("xls.workbook-in-regular-sectors") && stream.len() < 4096 { stream.resize(4096, 0); }
            let mut e = vec![cfb::Entry::stream("Workbook", stream, None)];
            e.extend(project_entries(&project, true, 1));
            cfb::write(&e, &lay)
        }
        "xlsx" => {
            let vba = cfb::write(&project_entries(&project, false, 0), &lay);
            xlsx::write(&xlsx::XBook { sheets: vec![xlsx::XSheet::new("S", vec![xlsx::XCell::new(0, 0, xlsx::XVal::Num("1".into()))])], vba: Some(vba), ..Default::default() }, &xlsx::XEnc::default())
        }
        _ => {
            let vba = cfb::write(&project_entries(&project, false, 0), &lay);
            xlsb::write(&xlsb::BBook { sheets: vec![xlsb::BSheet::new("S", vec![xlsb::BItem::Cell { row: 0, col: 0, style: 0, val: xlsb::BVal::Real(1.0) }])], vba: Some(vba), ..Default::default() }, Method::Deflated)
        }
    };
    let desc = json!({"format": fmt, "codepage": cp, "modules": project.modules.iter().map(|m| json!({"name": m.name, "stream": m.stream_name, "len": m.source.len(), "offset": m.text_offset, "mode": m.mode})).collect::<Vec<_>>(), "refs": project.refs.iter().map(|r| format!("{r:?}")).collect::<Vec<_>>(), "layout": format!("{lay:?}")});
    PCase { bytes, fmt, project, desc }
}

type Obs = (Vec<String>, Vec<(Vec<u8>, String)>, Vec<String>);

fn observe(fmt: &str, bytes: &[u8], names: &[String]) -> Result<Option<Obs>, String> {
    fn go<R: Reader<Cursor<Vec<u8>>>>(b: &[u8], names: &[String]) -> Result<Option<Obs>, String> where R::Error: std::fmt::Debug {
        let mut wb = R::new(Cursor::new(b.to_vec())).map_err(|e| format!("open: {e:?}"))?;
        let Some(v) = wb.vba_project() else { return Ok(None) };
        let v = v.map_err(|e| format!("vba_project: {e:?}"))?;
        let mnames: Vec<String> = v.get_module_names().iter().map(|s| s.to_string()).collect();
        let mut mods = vec![];
        for n in names {
            let raw = v.get_module_raw(n).map_err(|e| format!("get_module_raw({n}): {e:?}"))?.to_vec();
            let txt = v.get_module(n).map_err(|e| format!("get_module({n}): {e:?}"))?;
            mods.push((raw, txt));
        }
        Ok(Some((mnames, mods, v.get_references().iter().map(|r| r.name.clone()).collect())))
    }
    match fmt { "xlsx" => go::<Xlsx<_>>(bytes, names), "xlsb" => go::<Xlsb<_>>(bytes, names), _ => go::<Xls<_>>(bytes, names) }
}

fn decode(cp: u16, b: &[u8]) -> String {
    if cp == 932 { String::from_utf8_lossy(b).to_string() } else {
        // windows-1252 (WHATWG): 0x80..=0x9F per the table, everything else Latin-1
        const HI: [u32; 32] = [0x20AC, 0x81, 0x201A, 0x0192, 0x201E, 0x2026, 0x2020, 0x2021, 0x02C6, 0x2030, 0x0160, 0x2039, 0x0152, 0x8D, 0x017D, 0x8F,
            0x90, 0x2018, 0x2019, 0x201C, 0x201D, 0x2022, 0x2013, 0x2014, 0x02DC, 0x2122, 0x0161, 0x203A, 0x0153, 0x9D, 0x017E, 0x0178];
        b.iter().map(|x| if (0x80..0xA0).contains(x) { char::from_u32(HI[(*x - 0x80) as usize]).unwrap() } else { *x as char }).collect()
    }
}

fn run_case(rep: &Report, ch: &mut Chooser, fmt: &'static str, thorough: bool, local: &mut Vec<(u64, bool, u64)>) {
    let c = build(ch, fmt, thorough);
    rep.eval(1);
    let replay = || Replay { json: json!({"format": fmt, "choices": ch.choices(), "thorough": thorough, "case": c.desc}), files: vec![(fmt.to_string(), c.bytes.clone())] };
    let names: Vec<String> = c.project.modules.iter().map(|m| m.name.clone()).collect();
    let res = guarded(|| observe(c.fmt, &c.bytes, &names));
    let outcome = match &res {
        Err(p) => { let site = normalise_site(p.rsplit(" @ ").next().unwrap_or("")); rep.fail(&format!("{fmt}/panic/{site}"), &format!("panicked: {p}"), replay); hash_of(p) }
        Ok(Err(e)) => { let cl: String = e.chars().take_while(|c| *c != '(' && *c != '{').collect(); rep.fail(&format!("{fmt}/error/{}", cl.trim()), e, replay); hash_of(e) }
        Ok(Ok(None)) => { rep.fail(&format!("{fmt}/no-project"), "vba_project() returned None for a workbook with a project", replay); 0 }
        Ok(Ok(Some((mnames, mods, refs)))) => {
            let mut exp_names = names.clone();
            exp_names.sort();
            let exp_refs: Vec<String> = c.project.refs.iter().map(|r| r.name.clone()).collect();
            if *mnames != exp_names { rep.fail(&format!("{fmt}/module-names"), &format!("module names {mnames:?}, expected {exp_names:?}"), replay); }
            else if *refs != exp_refs { rep.fail(&format!("{fmt}/references"), &format!("reference names {refs:?}, expected {exp_refs:?}"), replay); }
            else {
                for (m, (raw, txt)) in c.project.modules.iter().zip(mods.iter()) {
                    if *raw != m.source { rep.fail(&format!("{fmt}/module-raw/mode={}", m.mode), &format!("module {} raw content: {} bytes, expected {} (first difference at {:?})", m.name, raw.len(), m.source.len(), raw.iter().zip(m.source.iter()).position(|(a, b)| a != b)), replay); break; }
                    if *txt != decode(c.project.codepage, &m.source) { rep.fail(&format!("{fmt}/module-text"), &format!("module {} text differs from the code-page decoding of its content", m.name), replay); break; }
                }
            }
            hash_of(&format!("{mnames:?}{refs:?}{}", mods.len()))
        }
    };
    local.push((hash_of(&c.bytes), !ch.is_default(), outcome));
    if rep.want_sample() && ch.choices().iter().filter(|x| **x != 0).count() >= 2 { rep.sample(c.desc.clone()); }
}

pub fn check(rep: &Report) {
    let t = crate::thorough(&rep.tier);
    rep.rule("(a) every source over {a,b} of length 1..8 (thorough 12) x every valid tokenisation (literal or any legal copy token at each position) through the real decompressor; for every position p in 1..4095 a chunk whose decompressed prefix has length p followed by copy tokens with offset in {1, p, p/2, 2^(bits-1)} and length in {3, 4, maximum for the bit split}; sources of 0..20000 bytes (low/high/mixed redundancy) compressed greedy / literal-only / raw, 1-5 chunks; (b) project layouts: 0-3 modules x source length x text offset {0,5,1000} x compression mode x stream name != module name x class/readonly/private records x 0-3 references of 5 kinds x compat-version record x code page (thorough: 932) x CFB layout, embedded in xlsm, xlsb and xls; <= 2 (thorough 4) deviations; non-trivial = uses a copy token / non-default layout");
    rep.assume("MODULENAMEUNICODE and the other optional unicode records are always written; library ids are well-formed (at least two '#')");
    sweep_tokenisations(rep, if t { 12 } else { 8 });
    sweep_positions(rep);
    sweep_chunks(rep);
    let stats = Mutex::new(Stats::default());
    ["xlsx", "xlsb", "xls"].par_iter().for_each(|fmt| {
        crate::engine::crumb::set_job(&format!("C18 project layouts format={fmt}"));
        let mut st = Stats::default();
        let mut local = vec![];
        explore_deviations(|ch| run_case(rep, ch, fmt, t, &mut local), if t { 4 } else { 2 }, &mut st);
        rep.cases_bulk(&local);
        stats.lock().unwrap().merge(&st);
        crate::engine::crumb::clear();
    });
    let st = stats.lock().unwrap();
    rep.add_states(st.nodes, st.edges);
    rep.trace(rep.evaluations.load(std::sync::atomic::Ordering::Relaxed));
    rep.extra("project_files", json!(st.executions));
    rep.extra("choice_labels_covered", st.label_summary());
    rep.exhaustive(true);
}

pub fn replay(path: &str) -> i32 {
    let Ok(s) = std::fs::read_to_string(path) else { return 2 };
    let v: serde_json::Value = serde_json::from_str(&s).unwrap();
    if v.get("container_hex_prefix").is_some() {
        let b = std::fs::read(v["files"][0].as_str().unwrap()).unwrap_or_default();
        let r = guarded(|| calamine::verif::cfb::decompress(&b));
        println!("{}: decompress -> {:?}", v["what"], r.map(|x| x.map(|y| (y.len(), hex(&y)))));
        return 0;
    }
    let choices: Vec<u32> = v["choices"].as_array().unwrap().iter().map(|x| x.as_u64().unwrap() as u32).collect();
    let fmt: &'static str = match v["format"].as_str().unwrap() { "xlsx" => "xlsx", "xlsb" => "xlsb", _ => "xls" };
    let th = v["thorough"].as_bool().unwrap_or(false);
    let mut outs = vec![];
    for _ in 0..2 {
        let mut o = String::new();
        run_one(|ch| { let c = build(ch, fmt, th); let names: Vec<String> = c.project.modules.iter().map(|m| m.name.clone()).collect(); o = format!("{:?}", guarded(|| observe(fmt, &c.bytes, &names)).map(|r| r.map(|x| x.map(|(n, m, rf)| (n, m.iter().map(|(raw, _)| raw.len()).collect::<Vec<_>>(), rf))))); }, &choices);
        outs.push(o);
    }
    if outs[0] != outs[1] { eprintln!("MACHINERY: replay not deterministic"); return 2; }
    println!("case: {}\nrecorded: {}\nobserved now (names, raw lengths, references): {}", v["case"], v["what"], outs[0]);
    0
}
