//! C03 — XLSB: every cell record reads back at its position with its value; records the reader does
//! not interpret never shift or drop neighbouring cells. E1 over small sheets x record kinds x
//! ignorable-record interleavings (1- and 2-byte ids, 1..3-byte lengths).
use crate::engine::choice::{explore_deviations, run_one, Chooser, Stats};
use crate::engine::report::{Replay, Report};
use crate::engine::{guarded, hash_of, normalise_site};
use crate::gen::biff8::rk_encodings;
use crate::gen::xlsb::*;
use crate::gen::zipw::Method;
use crate::model::sheet::range_ref_to_data;
use calamine::{CellErrorType, Data, Reader, ReaderRef, Xlsb};
use rayon::prelude::*;
use serde_json::json;
use std::collections::BTreeMap;
use std::io::Cursor;
use std::sync::Mutex;

fn err_of(code: u8) -> CellErrorType {
    match code { 0x00 => CellErrorType::Null, 0x07 => CellErrorType::Div0, 0x0F => CellErrorType::Value, 0x17 => CellErrorType::Ref, 0x1D => CellErrorType::Name, 0x24 => CellErrorType::Num, 0x2A => CellErrorType::NA, _ => CellErrorType::GettingData }
}
const SST: [&str; 3] = ["alpha", "b\u{e9}ta", "\u{20ac}uro \u{1F600}"];
const ONE: [u8; 3] = [0x1E, 1, 0];

#[derive(Clone, Debug, PartialEq)]
/// `Uninterpreted`: a cell record of a kind the statement does not list (BrtCellRString): the position may read as Empty or as
/// the record's text; what matters is that its neighbours are untouched
enum Exp { Val(Data), Numeric(f64, &'static str), Uninterpreted(String) }

fn kinds() -> Vec<(String, BVal, Exp)> {
    let mut v = vec![];
    // 0.35, 0.41 and 1.13 are x/100 values for which x * 0.01 differs from x / 100 in the last bit
    for n in [1.5f64, 0.0, 1.0, -1.0, 0.01, 1234.56, 536870911.0, -536870912.0, 536870912.0, 1e100, 5e-324, -7.25, 123456.78, 0.35, 0.41, 1.13] {
        for (name, w) in rk_encodings(n) {
            let must = match name { "rk-float" | "rk-float-x100" => "float", "rk-int" => "int", _ => "" };
            v.push((format!("{n} as {name}"), BVal::Rk(w), Exp::Numeric(n, must)));
        }
        v.push((format!("{n} as BrtCellReal"), BVal::Real(n), Exp::Numeric(n, "float")));
    }
    for i in 0..3u32 { v.push((format!("BrtCellIsst {i}"), BVal::Isst(i), Exp::Val(Data::String(SST[i as usize].into())))); }
    v.push(("BrtCellSt".into(), BVal::St("inline \u{e9}".into()), Exp::Val(Data::String("inline \u{e9}".into()))));
    v.push(("BrtCellBool true".into(), BVal::Bool(true), Exp::Val(Data::Bool(true))));
    v.push(("BrtCellBool false".into(), BVal::Bool(false), Exp::Val(Data::Bool(false))));
    for e in [0x00u8, 0x07, 0x0F, 0x17, 0x1D, 0x24, 0x2A, 0x2B] { v.push((format!("BrtCellError {e:#x}"), BVal::Err(e), Exp::Val(Data::Error(err_of(e))))); }
    v.push(("BrtFmlaNum".into(), BVal::FmlaNum(2.5, ONE.to_vec()), Exp::Numeric(2.5, "float")));
    v.push(("BrtFmlaString".into(), BVal::FmlaStr("r\u{e9}s".into(), ONE.to_vec()), Exp::Val(Data::String("r\u{e9}s".into()))));
    // zero-length strings are values too: a formula caching "" reads exactly like a constant ""
    v.push(("BrtCellSt empty".into(), BVal::St(String::new()), Exp::Val(Data::String(String::new()))));
    v.push(("BrtFmlaString empty".into(), BVal::FmlaStr(String::new(), ONE.to_vec()), Exp::Val(Data::String(String::new()))));
    v.push(("BrtFmlaBool".into(), BVal::FmlaBool(true, ONE.to_vec()), Exp::Val(Data::Bool(true))));
    v.push(("BrtFmlaError div0".into(), BVal::FmlaErr(0x07, ONE.to_vec()), Exp::Val(Data::Error(CellErrorType::Div0))));
    v.push(("BrtFmlaError na".into(), BVal::FmlaErr(0x2A, ONE.to_vec()), Exp::Val(Data::Error(CellErrorType::NA))));
    v
}

/// ignorable records a writer may legally put between cells (MS-XLSB 2.1.7.62: CELLMETA before a cell,
/// shared/array formula records after a formula cell, future-record blocks anywhere)
fn noise(ch: &mut Chooser) -> Vec<BItem> {
    let kind = ch.choose("ignorable-record", 7);
    let lens = [0usize, 1, 127, 128, 16383, 16384];
    match kind {
        0 => vec![],
        1 => vec![BItem::Raw(0x31, 7u32.to_le_bytes().to_vec())], // BrtCellMeta
        2 => vec![BItem::Raw(0x32, 3u32.to_le_bytes().to_vec())], // BrtValueMeta
        3 => { // FRT block holding an unknown future record with a 2-byte id
            let n = lens[ch.choose("ignorable-length", lens.len())];
            vec![BItem::Raw(0x23, vec![0, 0, 0, 0]), BItem::Raw(0x0C00, vec![0xA5; n]), BItem::Raw(0x24, vec![])]
        }
        4 => { let n = lens[ch.choose("ignorable-length", lens.len())]; vec![BItem::Raw(0x3FFF, vec![0x5A; n])] }
        5 => { let n = lens[ch.choose("ignorable-length", lens.len())]; vec![BItem::Raw(0x7F, vec![0x01; n])] }
        _ => { let n = lens[ch.choose("ignorable-length", lens.len())]; vec![BItem::Raw(0x80, vec![0x02; n])] }
    }
}

fn build(ch: &mut Chooser, anchor: (u32, u32), positions: &[(u32, u32)], thorough: bool) -> (Vec<u8>, BTreeMap<(u32, u32), Exp>, serde_json::Value) {
    let ks = kinds();
    let mut chosen: Vec<((u32, u32), usize)> = positions.iter().map(|p| ((anchor.0 + p.0, anchor.1 + p.1), ch.choose("cell-kind", ks.len()))).collect();
    chosen.sort_by_key(|c| c.0);
    let mut items = vec![];
    let mut exp = BTreeMap::new();
    let mut desc = vec![];
    items.extend(noise(ch));
    for (ci, ((r, c), k)) in chosen.iter().enumerate() {
        let (name, val, e) = ks[*k].clone();
        items.push(BItem::Cell { row: *r, col: *c, style: 0, val });
        exp.insert((*r, *c), e);
        desc.push(json!([r, c, name]));
        // an inline rich-text cell (BrtCellRString, a kind the reader does not interpret) in the free column between two cells of a row
        if let Some(((r2, c2), _)) = chosen.get(ci + 1) { if r2 == r && *c2 >= c + 2 && ch.flag("uninterpreted-rich-string-cell-between-two-cells") {
            let mut d = (c + 1).to_le_bytes().to_vec(); d.extend([0u8, 0, 0, 0]); d.push(0); d.extend(ws("rich text"));
            items.push(BItem::Raw(0x3E, d));
            exp.insert((*r, c + 1), Exp::Uninterpreted("rich text".into()));
        } }
        items.extend(noise(ch));
        // a blank (style-only) cell to the right: must not count
        if ch.flag("blank-cell-after") { items.push(BItem::Cell { row: *r, col: (*c + 2).min(16383), style: 0, val: BVal::Blank }); }
    }
    if thorough && ch.flag("huge-ignorable-record") { items.push(BItem::Raw(0x0C01, vec![0x33; 2_097_152])); }
    let mut sheet = BSheet::new("S1", items.clone());
    sheet.preamble = !ch.flag("no-optional-blocks-before-sheetdata");
    if ch.flag("cell-fPhShow-bit-set") { sheet.cell_flags = 1; }
    if sheet.preamble { sheet.preamble_bulk = ch.choose("bulk-in-the-skipped-blocks-before-sheet-data(none,600-area selection,1000-area selection,410 column infos)", 4) as u8; }
    let book = BBook { sheets: vec![sheet, BSheet::new("Other", vec![BItem::Cell { row: 3, col: 2, style: 0, val: BVal::Real(9.0) }])], sst: SST.iter().map(|s| s.to_string()).collect(), sst_total_refs: [None, Some(1), Some(977)][ch.choose("sst-reference-count(equal to the item count,smaller,larger)", 3)], rel_ids_non_ascii: ch.flag("relationship-ids-with-non-ascii-letters"), rels_end_tags: ch.flag("relationship-elements-with-explicit-end-tags"), sst_extra: if ch.flag("shared-strings-carry-rich-runs-and-phonetic-data") { (0..SST.len()).map(|i| (i % 3, if i % 2 == 1 { Some("ph".to_string()) } else { None })).collect() } else { vec![] }, ..Default::default() };
    let bytes = write(&book, if ch.flag("zip-stored") { Method::Stored } else { Method::Deflated });
    let d = json!({"cells": desc, "stream": items.iter().map(|i| match i { BItem::Cell { row, col, val, .. } => format!("cell({row},{col}) {}", format!("{val:?}").chars().take(24).collect::<String>()), BItem::Raw(t, d) => format!("rec {t:#06x} len {}", d.len()) }).collect::<Vec<_>>()});
    (bytes, exp, d)
}

fn run_case(rep: &Report, ch: &mut Chooser, anchor: (u32, u32), positions: &[(u32, u32)], local: &mut Vec<(u64, bool, u64)>, thorough: bool) {
    let (bytes, exp, desc) = build(ch, anchor, positions, thorough);
    rep.eval(1);
    let replay = || Replay { json: json!({"anchor": anchor, "positions": positions, "choices": ch.choices(), "thorough": thorough, "case": desc}), files: vec![("xlsb".into(), bytes.clone())] };
    let res = guarded(|| -> Result<(calamine::Range<Data>, calamine::Range<Data>), String> {
        let mut wb: Xlsb<_> = Xlsb::new(Cursor::new(bytes.clone())).map_err(|e| format!("open: {e:?}"))?;
        let a = wb.worksheet_range("S1").map_err(|e| format!("worksheet_range: {e:?}"))?;
        let b = range_ref_to_data(&wb.worksheet_range_ref("S1").map_err(|e| format!("worksheet_range_ref: {e:?}"))?);
        Ok((a, b))
    });
    let outcome = match &res {
        Err(p) => { let site = normalise_site(p.rsplit(" @ ").next().unwrap_or("")); rep.fail(&format!("panic/{site}"), &format!("reader panicked: {p}"), replay); hash_of(p) }
        Ok(Err(e)) => { let class: String = e.chars().take_while(|c| *c != '(' && *c != '{').collect(); rep.fail(&format!("error/{}", class.trim()), &format!("well-formed workbook rejected: {e}"), replay); hash_of(e) }
        Ok(Ok((r, r2))) => {
            let nonempty: Vec<(u32, u32)> = exp.keys().copied().collect();
            let bb = if nonempty.is_empty() { None } else { Some(((nonempty.iter().map(|p| p.0).min().unwrap(), nonempty.iter().map(|p| p.1).min().unwrap()), (nonempty.iter().map(|p| p.0).max().unwrap(), nonempty.iter().map(|p| p.1).max().unwrap()))) };
            let got_bb = match (r.start(), r.end()) { (Some(s), Some(e)) => Some((s, e)), _ => None };
            if crate::model::sheet::range_digest(r) != crate::model::sheet::range_digest(r2) { rep.fail("range-vs-range_ref", "worksheet_range and worksheet_range_ref differ", replay); }
            else if bb != got_bb { rep.fail("bounds", &format!("range {got_bb:?}, expected {bb:?}"), replay); }
            else if let Some((s, e)) = bb {
                'outer: for row in s.0..=e.0 { for col in s.1..=e.1 {
                    let got = r.get_value((row, col)).cloned().unwrap_or(Data::Empty);
                    let ok = match exp.get(&(row, col)) {
                        None => matches!(got, Data::Empty),
                        Some(Exp::Val(d)) => *d == got,
                        Some(Exp::Uninterpreted(t)) => matches!(got, Data::Empty) || got == Data::String(t.clone()),
                        Some(Exp::Numeric(v, must)) => match &got {
                            Data::Float(f) => (f.to_bits() == v.to_bits() || f == v) && *must != "int",
                            Data::Int(i) => *i as f64 == *v && *must != "float",
                            _ => false,
                        },
                    };
                    if !ok {
                        let kind = match exp.get(&(row, col)) { None => "spurious".to_string(), Some(Exp::Val(d)) => format!("{d:?}").split('(').next().unwrap_or("").to_string(), Some(Exp::Uninterpreted(_)) => "uninterpreted-record".to_string(), Some(Exp::Numeric(_, m)) => format!("numeric-{m}") };
                        rep.fail(&format!("value/{kind}"), &format!("at ({row},{col}) got {got:?}, expected {:?}", exp.get(&(row, col))), replay);
                        break 'outer;
                    }
                } }
            }
            hash_of(&format!("{exp:?}"))
        }
    };
    local.push((hash_of(&bytes), !ch.is_default(), outcome));
    if rep.want_sample() && ch.choices().iter().filter(|x| **x != 0).count() >= 2 { rep.sample(desc); }
}

fn position_sets(kmax: usize) -> Vec<Vec<(u32, u32)>> {
    let all: Vec<(u32, u32)> = (0..2).flat_map(|r| (0..3).map(move |c| (r, c))).collect();
    let mut out = vec![vec![]];
    fn rec(all: &[(u32, u32)], start: usize, k: usize, cur: &mut Vec<(u32, u32)>, out: &mut Vec<Vec<(u32, u32)>>) {
        if cur.len() == k { out.push(cur.clone()); return; }
        for i in start..all.len() { cur.push(all[i]); rec(all, i + 1, k, cur, out); cur.pop(); }
    }
    for k in 1..=kmax { rec(&all, 0, k, &mut vec![], &mut out); }
    out
}

/// Shared-string tables past the 16-bit index boundary: BrtCellIsst carries a 32-bit index.
pub(crate) fn large_sst(rep: &Report) {
    [65_535usize, 65_536, 65_537, 66_000].par_iter().for_each(|&n| {
        crate::engine::crumb::set_job(&format!("C03 shared-string table of {n} strings"));
        let idx: Vec<u32> = [0u32, 1, 255, 256, 65_534, 65_535, 65_536, 65_537, n as u32 - 1].into_iter().filter(|i| (*i as usize) < n).collect();
        let items: Vec<BItem> = idx.iter().enumerate().map(|(k, i)| BItem::Cell { row: k as u32, col: 0, style: 0, val: BVal::Isst(*i) }).collect();
        let book = BBook { sheets: vec![BSheet::new("S1", items)], sst: (0..n).map(|i| format!("s{i}")).collect(), ..Default::default() };
        let bytes = write(&book, Method::Deflated);
        rep.eval(1);
        let replay = || Replay { json: json!({"large_sst": n, "indices": idx}), files: vec![("xlsb".into(), bytes.clone())] };
        let res = guarded(|| -> Result<calamine::Range<Data>, String> {
            let mut wb: Xlsb<_> = Xlsb::new(Cursor::new(bytes.clone())).map_err(|e| format!("open: {e:?}"))?;
            wb.worksheet_range("S1").map_err(|e| format!("worksheet_range: {e:?}"))
        });
        match &res {
            Err(p) => rep.fail("large-sst/panic", &format!("reader panicked: {p}"), replay),
            Ok(Err(e)) => rep.fail("large-sst/error", &format!("well-formed workbook rejected: {e}"), replay),
            Ok(Ok(r)) => for (k, i) in idx.iter().enumerate() {
                let got = r.get_value((k as u32, 0)).cloned().unwrap_or(Data::Empty);
                if got != Data::String(format!("s{i}")) { rep.fail("large-sst/index", &format!("table of {n} strings: BrtCellIsst {i} at ({k},0) read {got:?}"), replay); break; }
            },
        }
        rep.case(hash_of(&bytes), true, hash_of(&format!("{:?}", res.as_ref().map(|r| r.as_ref().map(|x| x.get_size()).map_err(|e| e.clone())).map_err(|e| e.clone()))));
        crate::engine::crumb::clear();
    });
}

pub fn check(rep: &Report) {
    rayon::join(|| large_sst(rep), || check_sheets(rep));
}

fn check_sheets(rep: &Report) {
    crate::props::corpus::range_vs_range_ref::<calamine::Xlsb<_>>(rep, &["xlsb"]);
    let t = crate::thorough(&rep.tier);
    rep.rule("sheets with <= k cells in a 2x3 window at anchors {(0,0),(1,126),(1048574,16381)} (quick: every third two-cell position set at the second and third anchor) over ~70 cell kinds = 13 numbers x every exact RK encoding + BrtCellReal, BrtCellIsst/St/Bool/Error (8 codes), BrtFmlaNum/String/Bool/Error; at every gap an ignorable record (BrtCellMeta, BrtValueMeta, FRT block with an unknown future record, unknown ids 0x7F/0x80/0x3FFF) with payload lengths {0,1,127,128,16383,16384} and, separately, records of 2^21-1, 2^21, 2^21+1 and 2^22 bytes (4-byte length prefix) at every gap of a two-cell sheet; blank cells; with/without the optional blocks before BrtBeginSheetData; all choice vectors with <= d deviations; non-trivial = non-default choice; distinct by file bytes");
    rep.assume("RK int with the /100 flag may read as Int or Float (numeric equality required); worksheet_range and worksheet_range_ref must agree");
    let anchors: [(u32, u32); 3] = [(0, 0), (1, 126), (1_048_574, 16_381)];
    let kmax = 2;
    let dev = if t { 3 } else { 2 };
    let mut jobs = vec![];
    // quick: every two-cell position set at the first anchor, every third one at the other two
    for (ai, a) in anchors.iter().enumerate() { for (pi, p) in position_sets(kmax).into_iter().enumerate() { if t || ai == 0 || p.len() < 2 || pi % 3 == ai % 3 { jobs.push((*a, p)); } } }
    let stats = Mutex::new(Stats::default());
    jobs.par_iter().for_each(|(a, p)| {
        crate::engine::crumb::set_job(&format!("C03 anchor={a:?} positions={p:?}"));
        let mut st = Stats::default();
        let mut local = vec![];
        explore_deviations(|ch| run_case(rep, ch, *a, p, &mut local, t), dev, &mut st);
        rep.cases_bulk(&local);
        stats.lock().unwrap().merge(&st);
        crate::engine::crumb::clear();
    });
    // records whose length needs the 4th length byte (>= 2 MiB), at every gap of a two-row sheet
    let big: Vec<(usize, usize)> = [2_097_151usize, 2_097_152, 2_097_153, 4_194_304].iter().flat_map(|l| (0..3).map(move |g| (*l, g))).collect();
    big.par_iter().for_each(|(len, gap)| {
        crate::engine::crumb::set_case(&format!("C03 ignorable record of {len} bytes at gap {gap}"));
        let cellsv = [BItem::Cell { row: 2, col: 1, style: 0, val: BVal::Real(3.5) }, BItem::Cell { row: 3, col: 2, style: 0, val: BVal::Real(4.5) }];
        let mut items = vec![];
        for (i, c) in cellsv.iter().enumerate() { if i == *gap { items.push(BItem::Raw(0x0C01, vec![0x33; *len])); } items.push(c.clone()); }
        if *gap == 2 { items.push(BItem::Raw(0x0C01, vec![0x33; *len])); }
        let book = BBook { sheets: vec![BSheet::new("S1", items)], ..Default::default() };
        let bytes = write(&book, Method::Stored);
        rep.eval(1);
        let res = guarded(|| -> Result<calamine::Range<Data>, String> { let mut wb: Xlsb<_> = Xlsb::new(Cursor::new(bytes.clone())).map_err(|e| format!("open: {e:?}"))?; wb.worksheet_range("S1").map_err(|e| format!("worksheet_range: {e:?}")) });
        let mut g = crate::model::sheet::Grid::new();
        g.insert((2, 1), Data::Float(3.5)); g.insert((3, 2), Data::Float(4.5));
        let verdict = match &res { Ok(Ok(r)) => crate::model::sheet::check_range(r, &g).map_err(|(k, d)| format!("{k}: {d}")), Ok(Err(e)) => Err(e.clone()), Err(p) => Err(format!("panic {p}")) };
        rep.case(hash_of(&(len, gap)), true, hash_of(&format!("{verdict:?}")));
        if let Err(e) = verdict { rep.fail("four-byte-record-length", &format!("ignorable record of {len} bytes at gap {gap}: {e}"), || Replay { json: json!({"big_record_len": len, "gap": gap}), files: vec![] }); }
        crate::engine::crumb::clear();
    });
    let st = stats.lock().unwrap();
    rep.add_states(st.nodes + big.len() as u64, st.edges + big.len() as u64);
    rep.trace(st.executions);
    rep.extra("choice_labels_covered", st.label_summary());
    rep.extra("deviation_bound_completed", json!(dev));
    rep.exhaustive(true);
}

pub fn replay(path: &str) -> i32 {
    let Ok(s) = std::fs::read_to_string(path) else { return 2 };
    let v: serde_json::Value = serde_json::from_str(&s).unwrap();
    if let Some(c) = crate::props::corpus::replay_fixture(&v) { return c; }
    if v.get("big_record_len").is_some() { println!("recorded: {}", v["what"]); return 0; }
    if v.get("large_sst").is_some() { println!("table of {} strings, cells reference {} (see the file in the replay directory)", v["large_sst"], v["indices"]); return 0; }
    let choices: Vec<u32> = v["choices"].as_array().unwrap().iter().map(|x| x.as_u64().unwrap() as u32).collect();
    let anchor = (v["anchor"][0].as_u64().unwrap() as u32, v["anchor"][1].as_u64().unwrap() as u32);
    let positions: Vec<(u32, u32)> = v["positions"].as_array().unwrap().iter().map(|p| (p[0].as_u64().unwrap() as u32, p[1].as_u64().unwrap() as u32)).collect();
    let th = v["thorough"].as_bool().unwrap_or(false);
    let mut outs = vec![];
    for _ in 0..2 {
        let mut o = String::new();
        run_one(|ch| { let (bytes, exp, _) = build(ch, anchor, &positions, th); o = format!("{:?}\nexpected: {exp:?}", guarded(|| crate::props::dump::dump_xlsb(&bytes))); }, &choices);
        outs.push(o);
    }
    if outs[0] != outs[1] { eprintln!("MACHINERY: replay not deterministic"); return 2; }
    println!("case: {}\nrecorded: {}\nobserved now: {}", v["case"], v["what"], outs[0]);
    0
}
