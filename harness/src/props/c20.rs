//! C20 — encrypted workbooks are reported as password protected, and only those.
use crate::engine::choice::{explore_deviations, explore_full, run_one, Chooser, Stats};
use crate::engine::report::{Replay, Report};
use crate::engine::{guarded, hash_of, normalise_site};
use crate::gen::zipw::Method;
use crate::gen::{biff8, cfb, ods, xlsb, xlsx};
use calamine::{Ods, OdsError, Reader, Xls, XlsError, Xlsb, XlsbError, Xlsx, XlsxError};
use rayon::prelude::*;
use serde_json::json;
use std::io::Cursor;
use std::sync::Mutex;

#[derive(Debug, PartialEq, Clone)]
enum Outcome { Password, Opened, OtherError(String), Panic(String) }

/// A reader that hands out at most `max` bytes per read call (legal for any `Read`: sockets, pipes, chunking adaptors).
struct Chunked { c: Cursor<Vec<u8>>, max: usize }
impl std::io::Read for Chunked { fn read(&mut self, buf: &mut [u8]) -> std::io::Result<usize> { let n = buf.len().min(self.max); self.c.read(&mut buf[..n]) } }
impl std::io::Seek for Chunked { fn seek(&mut self, p: std::io::SeekFrom) -> std::io::Result<u64> { self.c.seek(p) } }
thread_local! { static CHUNK: std::cell::Cell<usize> = const { std::cell::Cell::new(usize::MAX) }; }

fn open(reader: &str, bytes: &[u8]) -> Outcome {
    let b = bytes.to_vec();
    let max = CHUNK.with(|c| c.get());
    // zip-based readers take a reader wherever the caller left it ("xlsx@8": after sniffing the magic bytes, "xlsx@end": after measuring the length)
    let (reader, at) = match reader.split_once('@') { Some((r, "8")) => (r, 8u64.min(b.len() as u64)), Some((r, _)) => (r, b.len() as u64), None => (reader, 0) };
    let cur = |v: Vec<u8>| { let mut c = Cursor::new(v); c.set_position(at); Chunked { c, max } };
    let plain = |v: Vec<u8>| Chunked { c: Cursor::new(v), max };
    let r = guarded(|| match reader {
        "xlsx" => match Xlsx::new(cur(b.clone())) { Ok(_) => Outcome::Opened, Err(XlsxError::Password) => Outcome::Password, Err(e) => Outcome::OtherError(format!("{e:?}")) },
        "xlsb" => match Xlsb::new(cur(b.clone())) { Ok(_) => Outcome::Opened, Err(XlsbError::Password) => Outcome::Password, Err(e) => Outcome::OtherError(format!("{e:?}")) },
        "xls" => match Xls::new(plain(b.clone())) { Ok(_) => Outcome::Opened, Err(XlsError::Password) => Outcome::Password, Err(e) => Outcome::OtherError(format!("{e:?}")) },
        _ => match Ods::new(plain(b.clone())) { Ok(_) => Outcome::Opened, Err(OdsError::Password) => Outcome::Password, Err(e) => Outcome::OtherError(format!("{e:?}")) },
    });
    match r { Ok(o) => o, Err(p) => Outcome::Panic(p) }
}

fn cipher(n: usize, seed: u32) -> Vec<u8> {
    let mut x = seed;
    (0..n).map(|_| { x = x.wrapping_mul(1664525).wrapping_add(1013904223); (x >> 24) as u8 }).collect()
}

fn layout(ch: &mut Chooser) -> cfb::Layout {
    cfb::Layout {
        v4: ch.flag("cfb.v4"),
        order: ch.pick("cfb.order", &[cfb::Order::Sequential, cfb::Order::StreamsFirst, cfb::Order::Reversed, cfb::Order::Interleaved, cfb::Order::Perm(3)]),
        mini_order: ch.pick("cfb.mini-order", &[cfb::Order::Sequential, cfb::Order::Reversed]),
        unused_dir_entries: ch.pick("cfb.unused-dir", &[0usize, 2]),
        dir_reversed: ch.flag("cfb.dir-reversed"),
        free_sectors: ch.pick("cfb.free", &[0usize, 1]),
        extra_fat_sectors: 0,
        free_mini_sectors: 0,
        name_garbage: ch.flag("cfb.stale-bytes-after-name-terminator"),
        size_hi_garbage: ch.flag("cfb.v3-junk-in-upper-half-of-size-field"),
        empty_minifat_sector: ch.flag("cfb.mini-fat-sector-without-mini-stream"),
        spare_chain_sectors: ch.pick("cfb.spare-sectors-at-the-end-of-chains", &[0usize, 2]),
    }
}

/// (reader, bytes, description, must be Password?)
fn build(ch: &mut Chooser, family: &str) -> (&'static str, Vec<u8>, String, bool) {
    match family {
        "ooxml" => {
            let reader: &'static str = if ch.flag("open-with-xlsb") { ch.pick("reader-position-at-open", &["xlsb", "xlsb@8", "xlsb@end"]) } else { ch.pick("reader-position-at-open", &["xlsx", "xlsx@8", "xlsx@end"]) };
            let size = ch.pick("encrypted-package-size", &[5000usize, 8, 4095, 4096, 4097, 70000]);
            let info = ch.choose("encryption-info", 6); // standard, agile, agile > 4096 bytes, absent, extensible 3.3, extensible 4.3
            let dataspaces = !ch.flag("no-dataspaces-storage");
            let mut e: Vec<cfb::Entry> = vec![];
            if dataspaces {
                e.push(cfb::Entry::storage("\u{6}DataSpaces", None));
                e.push(cfb::Entry::stream("Version", cipher(76, 1), Some(0)));
                e.push(cfb::Entry::stream("DataSpaceMap", cipher(112, 2), Some(0)));
                e.push(cfb::Entry::storage("DataSpaceInfo", Some(0)));
                e.push(cfb::Entry::stream("StrongEncryptionDataSpace", cipher(64, 3), Some(3)));
            }
            match info {
                0 => e.push(cfb::Entry::stream("EncryptionInfo", { let mut v = vec![3, 0, 2, 0, 0x24, 0, 0, 0]; v.extend(cipher(216, 4)); v }, None)),
                1 => e.push(cfb::Entry::stream("EncryptionInfo", { let mut v = vec![4, 0, 4, 0, 0x40, 0, 0, 0]; v.extend(b"<?xml version=\"1.0\" encoding=\"UTF-8\" standalone=\"yes\"?><encryption xmlns=\"http://schemas.microsoft.com/office/2006/encryption\"><keyData saltSize=\"16\"/></encryption>"); v.extend(cipher(900, 5)); v }, None)),
                2 => e.push(cfb::Entry::stream("EncryptionInfo", { let mut v = vec![4, 0, 4, 0, 0x40, 0, 0, 0]; v.extend(cipher(5000, 6)); v }, None)),
                4 => e.push(cfb::Entry::stream("EncryptionInfo", { let mut v = vec![3, 0, 3, 0, 0x34, 0, 0, 0]; v.extend(cipher(300, 14)); v }, None)),
                5 => e.push(cfb::Entry::stream("EncryptionInfo", { let mut v = vec![4, 0, 3, 0, 0x34, 0, 0, 0]; v.extend(cipher(300, 15)); v }, None)),
                _ => {}
            }
            let mut pkg = (size as u64).to_le_bytes().to_vec();
            pkg.extend(cipher(size.saturating_sub(8), 7));
            pkg.truncate(size.max(8));
            // ciphertext is arbitrary bytes: here it happens to end in a well-formed zip archive (a plain workbook), padded in front so
            // that the stream fills its sectors and, with the default sector order, the file itself ends like a zip file
            if ch.flag("ciphertext-ends-in-a-zip-archive") {
                let inner = xlsb::write(&xlsb::BBook { sheets: vec![xlsb::BSheet::new("Leaked", vec![xlsb::BItem::Cell { row: 0, col: 0, style: 0, val: xlsb::BVal::St("plain".into()) }])], sst: (0..300).map(|i| format!("filler string number {i}")).collect(), ..Default::default() }, Method::Stored);
                let body = 8 + inner.len();
                let padded = body.div_ceil(512).max(9) * 512;
                pkg = (inner.len() as u64).to_le_bytes().to_vec();
                pkg.extend(cipher(padded - body, 23));
                pkg.extend(inner);
            }
            e.push(cfb::Entry::stream("EncryptedPackage", pkg, None));
            let lay = layout(ch);
            (reader, cfb::write(&e, &lay), format!("encrypted OOXML: package {size} bytes, info variant {info}, dataspaces {dataspaces}, {lay:?}"), true)
        }
        "biff" => {
            let kind = ch.choose("filepass-kind", 5);
            let payload: Vec<u8> = match kind {
                0 => { let mut v = 1u16.to_le_bytes().to_vec(); v.extend(1u16.to_le_bytes()); v.extend(1u16.to_le_bytes()); v.extend(cipher(48, 8)); v } // RC4 1.1
                1 => { let mut v = 0u16.to_le_bytes().to_vec(); v.extend(0x1234u16.to_le_bytes()); v.extend(0x5678u16.to_le_bytes()); v } // XOR obfuscation
                2 => { let mut v = 1u16.to_le_bytes().to_vec(); v.extend(2u16.to_le_bytes()); v.extend(2u16.to_le_bytes()); v.extend(cipher(196, 9)); v } // RC4 CryptoAPI v2
                3 => { let mut v = 1u16.to_le_bytes().to_vec(); v.extend(4u16.to_le_bytes()); v.extend(2u16.to_le_bytes()); v.extend(cipher(220, 10)); v } // RC4 CryptoAPI v4
                _ => { let mut v = 0x1234u16.to_le_bytes().to_vec(); v.extend(0x5678u16.to_le_bytes()); v } // BIFF5 (Excel 5.0/95): bare XOR key + verifier, no wEncryptionType
            };
            let after_writeprotect = ch.flag("filepass-after-writeprotect");
            let mut book = biff8::BBook { sheets: vec![biff8::BSheet::new("S", vec![biff8::BCell::Number { r: 0, c: 0, xf: 0, v: 1.0 }, biff8::BCell::Label { r: 1, c: 0, xf: 0, text: "secret".into(), wide: false }])], ..Default::default() };
            book.filepass = Some((payload, if after_writeprotect { 1 } else { 0 }));
            if after_writeprotect { book.extra_globals = vec![(0x0086, vec![])]; }
            let mut stream = biff8::workbook_stream(&book);
            // what an encryptor does: record headers stay, bodies after FILEPASS are garbled (BOF, FILEPASS and BoundSheet positions excepted)
            let mut p = 0usize;
            let mut seen_fp = false;
            let mut k = 0u32;
            while p + 4 <= stream.len() {
                let t = u16::from_le_bytes([stream[p], stream[p + 1]]);
                let l = u16::from_le_bytes([stream[p + 2], stream[p + 3]]) as usize;
                if seen_fp && t != 0x0809 && t != 0x002F && t != 0x000A {
                    let from = if t == 0x0085 { 4 } else { 0 };
                    for i in from..l { k = k.wrapping_mul(1103515245).wrapping_add(12345); stream[p + 4 + i] ^= (k >> 16) as u8 | 1; }
                }
                if t == 0x002F { seen_fp = true; }
                p += 4 + l;
            }
            // the BIFF5 form lives in a BIFF5 workbook: BOF version 0x0500, stream named Book
            if kind == 4 { stream[4] = 0x00; stream[5] = 0x05; }
            if ch.flag("workbook-in-regular-sectors") && stream.len() < 4096 { stream.resize(4096, 0); }
            let lay = layout(ch);
            // the macro storage of a protected workbook is not encrypted and is read before the workbook stream: whatever it
            // holds (here a private class module with control references), the answer is still "password"
            let with_vba = ch.flag("protected-workbook-carries-a-vba-project(private module, control reference)");
            let file = if with_vba {
                use crate::gen::ovba::*;
                let pr = VProject { codepage: 1252, modules: vec![VModule { name: "Secret".into(), stream_name: "Secret".into(), source: b"Option Private Module\r\nSub A()\r\nEnd Sub\r\n".to_vec(), text_offset: 0, mode: 0, class_module: true, read_only: true, private: true }], refs: vec![VRef { name: "stdole".into(), kind: RefKind::Registered }, VRef { name: "MSForms".into(), kind: RefKind::Control { original: true, extended_name: true } }], compat_version: true, descriptive: true };
                let mut e = vec![cfb::Entry::stream(if kind == 4 { "Book" } else { "Workbook" }, stream, None)];
                e.extend(project_entries(&pr, true, 1));
                cfb::write(&e, &lay)
            } else { cfb::simple(&[(if kind == 4 { "Book" } else { "Workbook" }, stream)], &lay) };
            ("xls", file, format!("BIFF FILEPASS kind {kind} (0 RC4, 1 XOR, 2/3 CryptoAPI, 4 BIFF5 XOR in a Book stream), after WRITEPROTECT: {after_writeprotect}, {lay:?}"), true)
        }
        "ods" => {
            let extra = ch.choose("manifest-extra-entries", 3);
            let which = ch.choose("encrypted-entries", 5); // content only, first (root excluded) .., last, all, several
            let n = 3 + extra;
            let keyinfo = ch.flag("manifest-keyinfo-element-first(OpenPGP)");
            let enc: Vec<usize> = match which { 0 => vec![1], 1 => vec![2], 2 => vec![n - 1], 3 => (1..n).collect(), _ => vec![1, n - 1] };
            let book = ods::OBook { sheets: vec![ods::OSheet { name: "S".into(), rows: vec![ods::ORow { cells: vec![(ods::OCell::new(ods::OVal::Float("1".into(), "float")), 1)], repeat: 1 }], display: None }], encrypted_entries: enc.clone(), extra_manifest_entries: extra, manifest_keyinfo: keyinfo, manifest_comments: ch.flag("manifest-with-comments-and-line-breaks"), manifest_end_tags: ch.flag("manifest-plain-entries-with-explicit-end-tags"), ..Default::default() };
            // the content of an encrypted package is ciphertext
            ("ods", ods::write_with_content(&book, &cipher(700, 11), if ch.flag("zip-stored") { Method::Stored } else { Method::Deflated }), format!("ods manifest with {n} entries, encryption-data on {enc:?}, keyinfo first: {keyinfo}"), true)
        }
        _ => {
            // converse: unencrypted workbooks of every format in CFB/ZIP variations
            let fmt: &'static str = ["xlsx", "xlsb", "xls", "ods"][ch.choose("plain-format", 4)];
            let bytes = match fmt {
                "xlsx" => xlsx::write(&xlsx::XBook { sheets: vec![xlsx::XSheet::new("EncryptedPackage", vec![xlsx::XCell::new(0, 0, xlsx::XVal::InlineStr(xlsx::XText::plain("EncryptedPackage")))])], ..Default::default() }, &crate::props::c01::choose_enc(ch)),
                "xlsb" => xlsb::write(&xlsb::BBook { sheets: vec![xlsb::BSheet::new("EncryptedPackage", vec![xlsb::BItem::Cell { row: 0, col: 0, style: 0, val: xlsb::BVal::St("FILEPASS".into()) }])], ..Default::default() }, if ch.flag("zip-stored") { Method::Stored } else { Method::Deflated }),
                "xls" => {
                    let mut book = biff8::BBook { sheets: vec![biff8::BSheet::new("S", vec![biff8::BCell::Number { r: 0, c: 0, xf: 0, v: 47.0 }, biff8::BCell::Label { r: 1, c: 0, xf: 0, text: "EncryptedPackage".into(), wide: false }])], ..Default::default() };
                    if ch.flag("writeprotect-record") { book.extra_globals = vec![(0x0086, vec![])]; }
                    // workbook-structure protection (PROTECT + PASSWORD verifier) is not encryption: there is no FILEPASS
                    if ch.flag("structure-protection-with-password-verifier") { book.extra_globals.push((0x0012, vec![1, 0])); book.extra_globals.push((0x0013, vec![0xCE, 0x4B])); }
                    let mut stream = biff8::workbook_stream(&book);
                    if ch.flag("workbook-in-regular-sectors") && stream.len() < 4096 { stream.resize(4096, 0); }
                    let mut e = vec![cfb::Entry::stream("Workbook", stream, None)];
                    // an embedded, password-protected OOXML document (an OLE object of the sheet): its storage holds EncryptedPackage
                    // and EncryptionInfo streams, the workbook itself is not encrypted
                    if ch.flag("embedded-ole-object-that-is-an-encrypted-ooxml-document") {
                        e.push(cfb::Entry::storage("MBD0001A2B3", None));
                        let at = e.len() - 1;
                        e.push(cfb::Entry::stream("EncryptionInfo", { let mut v = vec![4, 0, 4, 0, 0x40, 0, 0, 0]; v.extend(cipher(900, 21)); v }, Some(at)));
                        e.push(cfb::Entry::stream("EncryptedPackage", { let mut v = 5000u64.to_le_bytes().to_vec(); v.extend(cipher(5000, 22)); v }, Some(at)));
                    }
                    if ch.flag("summary-streams") { e.push(cfb::Entry::stream("\u{5}SummaryInformation", cipher(300, 12), None)); e.push(cfb::Entry::stream("\u{5}DocumentSummaryInformation", cipher(5000, 13), None)); }
                    cfb::write(&e, &layout(ch))
                }
                _ => ods::write(&ods::OBook { sheets: vec![ods::OSheet { name: "S".into(), rows: vec![ods::ORow { cells: vec![(ods::OCell::new(ods::OVal::StrContent("encryption-data".into(), ods::SpaceMode::TextS, false)), 1)], repeat: 1 }], display: None }], extra_manifest_entries: ch.choose("manifest-extra-entries", 3), manifest_end_tags: ch.flag("manifest-plain-entries-with-explicit-end-tags"), manifest_comments: ch.flag("manifest-with-comments-and-line-breaks"), ..Default::default() }, if ch.flag("zip-stored") { Method::Stored } else { Method::Deflated }),
            };
            let reader: &'static str = match fmt { "xlsx" => ch.pick("reader-position-at-open", &["xlsx", "xlsx@8", "xlsx@end"]), "xlsb" => ch.pick("reader-position-at-open", &["xlsb", "xlsb@8", "xlsb@end"]), f => f };
            (reader, bytes, format!("unencrypted {reader}"), false)
        }
    }
}

fn run_case(rep: &Report, ch: &mut Chooser, family: &str, local: &mut Vec<(u64, bool, u64)>) {
    let (reader, bytes, desc, must) = build(ch, family);
    // how many bytes the reader hands out per read call
    let chunk = ch.pick("reader-hands-out-at-most-n-bytes-per-read", &[usize::MAX, 7, 500]);
    CHUNK.with(|c| c.set(chunk));
    rep.eval(1);
    let out = open(reader, &bytes);
    CHUNK.with(|c| c.set(usize::MAX));
    let replay = || Replay { json: json!({"family": family, "choices": ch.choices(), "case": desc, "reader": reader}), files: vec![(reader.split('@').next().unwrap().to_string(), bytes.clone())] };
    match (&out, must) {
        (Outcome::Password, true) | (Outcome::Opened, false) => {}
        (Outcome::Panic(p), _) => { let site = normalise_site(p.rsplit(" @ ").next().unwrap_or("")); rep.fail(&format!("{family}/panic/{site}"), &format!("panicked: {p} [{desc}]"), replay); }
        (Outcome::Opened, true) => { let k: String = desc.split(',').next().unwrap_or("").chars().take(40).collect(); rep.fail(&format!("{family}/opened-undecrypted/{k}"), &format!("opened without error although encrypted [{desc}]"), replay); }
        (Outcome::OtherError(e), true) => { let cl: String = e.chars().take_while(|c| *c != '(' && *c != '{').collect(); rep.fail(&format!("{family}/unrelated-error/{}", cl.trim()), &format!("error {e} instead of Password [{desc}]"), replay); }
        (Outcome::Password, false) => { rep.fail(&format!("{family}/false-password/{reader}"), &format!("unencrypted workbook reported as password protected [{desc}]"), replay); }
        (Outcome::OtherError(e), false) => { rep.fail(&format!("{family}/plain-rejected/{reader}"), &format!("unencrypted workbook rejected: {e} [{desc}]"), replay); }
    }
    local.push((hash_of(&bytes), !ch.is_default(), hash_of(&format!("{out:?}"))));
    if rep.want_sample() && ch.choices().iter().filter(|x| **x != 0).count() >= 2 { rep.sample(json!({"case": desc, "outcome": format!("{out:?}")})); }
}

/// An encrypted package of 15.7 MB in a 512-byte-sector container: more than 236 FAT sectors, i.e. two DIFAT sectors; with
/// the streams laid out first, the directory and the FAT sit behind sector 30208.
fn huge_package(rep: &Report) {
    let mut pkg = 15_700_000u64.to_le_bytes().to_vec();
    pkg.extend(cipher(15_700_000 - 8, 21));
    let e = vec![cfb::Entry::stream("EncryptionInfo", { let mut v = vec![3, 0, 2, 0, 0x24, 0, 0, 0]; v.extend(cipher(216, 4)); v }, None), cfb::Entry::stream("EncryptedPackage", pkg, None)];
    for order in [cfb::Order::StreamsFirst, cfb::Order::Sequential, cfb::Order::Reversed] {
        let lay = cfb::Layout { order, ..Default::default() };
        let bytes = cfb::write(&e, &lay);
        for reader in ["xlsx", "xlsb"] {
            crate::engine::crumb::set_job(&format!("C20 15.7 MB encrypted package, {order:?}, {reader}"));
            rep.eval(1);
            let out = open(reader, &bytes);
            if !matches!(out, Outcome::Password) {
                rep.fail(&format!("ooxml/two-difat-sectors/{}", match &out { Outcome::Panic(_) => "panic", Outcome::Opened => "opened", _ => "unrelated-error" }), &format!("{out:?} instead of Password for a 15.7 MB encrypted package ({order:?} sector order, {reader} reader)"),
                    || Replay { json: json!({"family": "ooxml-huge", "order": format!("{order:?}"), "reader": reader, "note": "the 15.7 MB file is not stored; it is EncryptionInfo + EncryptedPackage of pseudo-random bytes written by gen::cfb with this sector order"}), files: vec![] });
            }
            rep.case(hash_of(&(format!("{order:?}"), reader, "huge")), true, hash_of(&format!("{out:?}")));
            crate::engine::crumb::clear();
        }
    }
}

pub fn check(rep: &Report) {
    let t = crate::thorough(&rep.tier);
    huge_package(rep);
    rep.rule("encrypted OOXML: EncryptedPackage of {8, 4095, 4096, 4097, 5000, 70000} bytes or ending in a zip archive at the very end of the file x EncryptionInfo {standard, agile, agile > 4096 bytes, absent, extensible 3.3 / 4.3} x DataSpaces storage present/absent x CFB layouts (v3/v4, 5 sector orders, mini order, unused entries, directory order, free sectors), opened with Xlsx and Xlsb from a reader positioned at the start, after the 8 magic bytes or at the end; BIFF: FILEPASS of 5 kinds (BIFF8 RC4, XOR obfuscation, CryptoAPI v2/v4; the 4-byte BIFF5 XOR form in a Book stream) directly after BOF or after WRITEPROTECT, record bodies garbled, mini stream or regular sectors, with or without an (unencrypted) VBA project, CFB layouts; every reader fed whole or in reads of at most 7 / 500 bytes; ods: manifests (plain, or with comments and line breaks between and inside the entries) with 3-5 entries and encryption-data on the first, a middle, the last, all or several entries, ciphertext content; converse: unencrypted workbooks of all four formats (xlsx under every encoding of C01, xls under CFB layouts with extra streams or an embedded encrypted OOXML object, names and strings that spell 'EncryptedPackage' / 'FILEPASS' / 'encryption-data') must open; full product for ods, <= 4 deviations (thorough: full product) for ooxml, biff and plain; non-trivial = non-default choice");
    rep.assume("ciphertext is pseudo-random bytes; EncryptedPackage starts with its 8-byte size prefix");
    let stats = Mutex::new(Stats::default());
    ["ooxml", "biff", "ods", "plain"].par_iter().for_each(|fam| {
        crate::engine::crumb::set_job(&format!("C20 family={fam}"));
        let mut st = Stats::default();
        let mut local = vec![];
        if *fam == "ods" || t { explore_full(|ch| run_case(rep, ch, fam, &mut local), &mut st, 400_000); }
        else { explore_deviations(|ch| run_case(rep, ch, fam, &mut local), 4, &mut st); }
        rep.cases_bulk(&local);
        stats.lock().unwrap().merge(&st);
        crate::engine::crumb::clear();
    });
    let st = stats.lock().unwrap();
    rep.add_states(st.nodes, st.edges);
    rep.trace(st.executions);
    rep.extra("choice_labels_covered", st.label_summary());
    if st.capped { rep.cap("full product capped at 400000 files per family"); } else { rep.exhaustive(true); }
}

pub fn replay(path: &str) -> i32 {
    let Ok(s) = std::fs::read_to_string(path) else { return 2 };
    let v: serde_json::Value = serde_json::from_str(&s).unwrap();
    if v["family"] == "ooxml-huge" { println!("{}", v); return 0; }
    let choices: Vec<u32> = v["choices"].as_array().unwrap().iter().map(|x| x.as_u64().unwrap() as u32).collect();
    let fam = v["family"].as_str().unwrap().to_string();
    let mut outs = vec![];
    for _ in 0..2 {
        let mut o = String::new();
        run_one(|ch| { let (reader, bytes, desc, must) = build(ch, &fam); o = format!("{desc}: {:?} (must be Password: {must})", open(reader, &bytes)); }, &choices);
        outs.push(o);
    }
    if outs[0] != outs[1] { eprintln!("MACHINERY: replay not deterministic"); return 2; }
    println!("recorded: {}\nobserved now: {}", v["what"], outs[0]);
    0
}
