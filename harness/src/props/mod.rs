//! One module per property.
pub mod c01;
pub mod c02;
pub mod c03;
pub mod c04;
pub mod c05;
pub mod c06;
pub mod c07;
pub mod corpus;
pub mod c08;
pub mod c09;
pub mod c10;
pub mod c11;
pub mod c12;
pub mod c13;
pub mod c13_e2e;
pub mod c14;
pub mod c15;
pub mod c16;
pub mod c17;
pub mod c18;
pub mod c19;
pub mod c20;
pub mod dump;

use crate::engine::report::Report;

pub fn run(id: &str, tier: &str) -> Option<i32> {
    let r = match id {
        "C01" => { let r = Report::new(id, tier, "model_checking"); c01::check(&r); r }
        "C02" => { let r = Report::new(id, tier, "model_checking"); c02::check(&r); r }
        "C03" => { let r = Report::new(id, tier, "model_checking"); c03::check(&r); r }
        "C04" => { let r = Report::new(id, tier, "model_checking"); c04::check(&r); r }
        "C05" => { let r = Report::new(id, tier, "model_checking"); c05::check(&r); r }
        "C06" => { let r = Report::new(id, tier, "fault_enumeration"); c06::check(&r); r }
        "C07" => { let r = Report::new(id, tier, "model_checking"); c07::check(&r); r }
        "C08" => { let r = Report::new(id, tier, "model_checking"); c08::check(&r); r }
        "C09" => { let r = Report::new(id, tier, "model_checking"); c09::check(&r); r }
        "C10" => { let r = Report::new(id, tier, "model_checking"); c10::check(&r); r }
        "C11" => { let r = Report::new(id, tier, "model_checking"); c11::check(&r); r }
        "C12" => { let r = Report::new(id, tier, "model_checking"); c12::check(&r); r }
        "C13" => { let r = Report::new(id, tier, "model_checking"); c13::check(&r); r }
        "C14" => { let r = Report::new(id, tier, "model_checking"); c14::check(&r); r }
        "C15" => { let r = Report::new(id, tier, "model_checking"); c15::check(&r); r }
        "C16" => { let r = Report::new(id, tier, "model_checking"); c16::check(&r); r }
        "C17" => { let r = Report::new(id, tier, "model_checking"); c17::check(&r); r }
        "C18" => { let r = Report::new(id, tier, "model_checking"); c18::check(&r); r }
        "C19" => { let r = Report::new(id, tier, "model_checking"); c19::check(&r); r }
        "C20" => { let r = Report::new(id, tier, "model_checking"); c20::check(&r); r }
        _ => return None,
    };
    Some(r.finish())
}

pub fn replay(id: &str, path: &str) -> Option<i32> {
    match id {
        "C01" => Some(c01::replay(path)),
        "C02" => Some(c02::replay(path)),
        "C03" => Some(c03::replay(path)),
        "C04" => Some(c04::replay(path)),
        "C05" => Some(c05::replay(path)),
        "C06" => Some(c06::replay(path)),
        "C07" => Some(c07::replay(path)),
        "C08" => Some(c08::replay(path)),
        "C09" => Some(c09::replay(path)),
        "C10" => Some(c10::replay(path)),
        "C11" => Some(c11::replay(path)),
        "C12" => Some(c12::replay(path)),
        "C13" => Some(c13::replay(path)),
        "C14" => Some(c14::replay(path)),
        "C15" => Some(c15::replay(path)),
        "C16" => Some(c16::replay(path)),
        "C17" => Some(c17::replay(path)),
        "C18" => Some(c18::replay(path)),
        "C19" => Some(c19::replay(path)),
        "C20" => Some(c20::replay(path)),
        _ => None,
    }
}
