//! One module per property.
pub mod c05;

use crate::engine::report::Report;

pub fn run(id: &str, tier: &str) -> Option<i32> {
    let r = match id {
        "C05" => { let r = Report::new(id, tier, "model_checking"); c05::check(&r); r }
        _ => return None,
    };
    Some(r.finish())
}

pub fn replay(id: &str, path: &str) -> Option<i32> {
    match id {
        "C05" => Some(c05::replay(path)),
        _ => None,
    }
}
