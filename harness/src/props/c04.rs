//! C04 — ODS: cells read back at their position; repeat counts expand faithfully.
//! E1: logical grids x every run-length composition of equal cells / rows x trailing-empty variants.
use crate::engine::choice::{estimate_product, explore_deviations, explore_full, run_one, Chooser, Stats};
use crate::engine::report::{Replay, Report};
use crate::engine::{guarded, hash_of, normalise_site};
use crate::gen::ods::*;
use crate::gen::zipw::Method;
use crate::model::sheet::{check_range, Grid};
use calamine::{Data, Ods, Reader};
use rayon::prelude::*;
use serde_json::json;
use std::io::Cursor;
use std::sync::Mutex;

/// abstract cell of the logical grid: 0 = empty, 1 = value A, 2 = value B
type G = Vec<Vec<u8>>;

fn kinds() -> Vec<(&'static str, OVal, Data)> {
    vec![
        ("float", OVal::Float("1.5".into(), "float"), Data::Float(1.5)),
        ("string-content", OVal::StrContent("x y".into(), SpaceMode::TextS, false), Data::String("x y".into())),
        ("percentage", OVal::Float("0.25".into(), "percentage"), Data::Float(0.25)),
        ("currency", OVal::Float("-3".into(), "currency"), Data::Float(-3.0)),
        ("string-attr", OVal::StrAttr("attr&<".into()), Data::String("attr&<".into())),
        ("string-attr-without-paragraph", OVal::StrAttrBare("kept".into()), Data::String("kept".into())),
        ("boolean", OVal::Bool(true), Data::Bool(true)),
        ("date", OVal::Date("2021-03-04".into()), Data::DateTimeIso("2021-03-04".into())),
        ("time", OVal::Time("PT12H30M00S".into()), Data::DurationIso("PT12H30M00S".into())),
        ("float-int", OVal::Float("7".into(), "float"), Data::Float(7.0)),
    ]
}

/// all compositions of one maximal run, chosen cut by cut (default: no cut = one repeated element)
thread_local! { static CORE_ONLY: std::cell::Cell<bool> = const { std::cell::Cell::new(false) }; }
/// document-level variations (comments, indentation, far-away sheets, horizontal merges) are free choices in the
/// deviation-bounded exploration and fixed to their defaults in the full run-length product of the small grids
fn doc_flag(ch: &mut Chooser, label: &'static str) -> bool { if CORE_ONLY.with(|c| c.get()) { false } else { ch.flag(label) } }

fn encode_run(ch: &mut Chooser, label: &'static str, n: usize) -> Vec<u32> {
    let mut parts = vec![1u32];
    for _ in 1..n {
        if ch.flag(label) { parts.push(1); } else { *parts.last_mut().unwrap() += 1; }
    }
    parts
}

fn encode_row(ch: &mut Chooser, cells: &[OVal], annotate: bool) -> Vec<(OCell, u32)> {
    let mut out = vec![];
    let mut n = cells.len();
    while n > 0 && cells[n - 1] == OVal::Empty { n -= 1; }
    let trailing = cells.len() - n;
    let (mut force_covered, mut force_rest, mut merged_prev) = (false, false, false);
    let mut i = 0;
    while i < n {
        let mut j = i;
        while j < n && cells[j] == cells[i] { j += 1; }
        // a single value followed by interior empties may be the head of a horizontally merged region: it declares how many
        // columns it spans and the empties it hides are covered cells
        let next_empty = if j < n && j - i == 1 && cells[i] != OVal::Empty { let mut k = j; while k < n && cells[k] == OVal::Empty { k += 1; } if k < n { k - j } else { 0 } } else { 0 };
        let merged = next_empty > 0 && doc_flag(ch, "value-heads-a-horizontal-merge");
        if merged { force_covered = true; }
        let is_empty_run = cells[i] == OVal::Empty;
        for p in encode_run(ch, "cell-run-cut", j - i) {
            let covered = is_empty_run && (std::mem::replace(&mut force_covered, false) | force_rest | ch.flag("covered-cell"));
            if is_empty_run && covered && merged_prev { force_rest = true; }
            out.push((OCell { val: cells[i].clone(), formula: None, covered, annotation: annotate && !is_empty_run, spanned: if merged { Some((next_empty as u32 + 1, 1)) } else { None } }, p));
        }
        force_rest = false;
        merged_prev = merged;
        i = j;
    }
    // trailing empties of the row: absent, exact, or padded to a wide sheet
    match ch.choose("row-trailing-empties", 4) {
        0 => {}
        1 => out.push((OCell::empty(), (trailing as u32).max(1))),
        2 => out.push((OCell::empty(), trailing as u32 + 1020)),
        _ => { out.push((OCell::empty(), 1)); out.push((OCell::empty(), 16_383 - cells.len() as u32)); }
    }
    out
}

fn build(ch: &mut Chooser, g: &G, ka: usize, kb: usize) -> (OBook, Grid, serde_json::Value) {
    let ks = kinds();
    let val = |c: u8| match c { 0 => OVal::Empty, 1 => ks[ka].1.clone(), _ => ks[kb].1.clone() };
    let exp = |c: u8| match c { 1 => ks[ka].2.clone(), _ => ks[kb].2.clone() };
    // the whole sheet may sit far from A1: one leading run of 1040 empty cells in every row with a value (more than the
    // 1024 columns of old spreadsheet versions), and / or one leading run of 70000 empty rows
    let far_right: u32 = if doc_flag(ch, "leading-run-of-1040-empty-cells") { 1040 } else { 0 };
    let far_down: u32 = if doc_flag(ch, "leading-run-of-70000-empty-rows") { 70_000 } else { 0 };
    let mut grid = Grid::new();
    for (r, row) in g.iter().enumerate() { for (c, v) in row.iter().enumerate() { if *v != 0 { grid.insert((r as u32 + far_down, c as u32 + far_right), exp(*v)); } } }
    // every non-empty cell carries a comment (office:annotation with its own paragraphs), which is not part of the value
    let annotate = doc_flag(ch, "cells-have-comments");
    // rows: maximal runs of equal logical rows, every composition
    let mut nrows = g.len();
    while nrows > 0 && g[nrows - 1].iter().all(|c| *c == 0) { nrows -= 1; }
    let trailing_rows = g.len() - nrows;
    let mut rows = vec![];
    let mut i = 0;
    while i < nrows {
        let mut j = i;
        while j < nrows && g[j] == g[i] { j += 1; }
        for p in encode_run(ch, "row-run-cut", j - i) {
            let cells: Vec<OVal> = g[i].iter().map(|c| val(*c)).collect();
            let mut enc = encode_row(ch, &cells, annotate);
            if far_right > 0 && cells.iter().any(|c| *c != OVal::Empty) { enc.insert(0, (OCell::empty(), far_right)); }
            rows.push(ORow { cells: enc, repeat: p });
        }
        i = j;
    }
    if far_down > 0 { rows.insert(0, ORow { cells: vec![(OCell::empty(), 1)], repeat: far_down }); }
    match ch.choose("sheet-trailing-empty-rows", 4) {
        0 => {}
        1 => rows.push(ORow { cells: vec![(OCell::empty(), 1)], repeat: (trailing_rows as u32).max(1) }),
        2 => rows.push(ORow { cells: vec![(OCell::empty(), 1024)], repeat: trailing_rows as u32 + 1000 }),
        _ => rows.push(ORow { cells: vec![(OCell::empty(), 16_384)], repeat: 1_048_576 - nrows as u32 }),
    }
    let desc = json!({"grid": g, "A": ks[ka].0, "B": ks[kb].0,
        "rows": rows.iter().map(|r| json!({"repeat": r.repeat, "cells": r.cells.iter().map(|(c, n)| format!("{}{}x{}", if c.covered { "cov:" } else { "" }, match &c.val { OVal::Empty => "E".to_string(), v if *v == ks[ka].1 => "A".into(), _ => "B".into() }, n)).collect::<Vec<_>>()})).collect::<Vec<_>>()});
    // (row grouping elements, attribute order of the cell elements) of the document
    let form: (u8, u8) = if CORE_ONLY.with(|c| c.get()) { (0, 0) } else { [(0, 0), (1, 1), (2, 2), (3, 0), (0, 1), (0, 2)][ch.choose("document-form(rows in header-rows / row-group / rows elements; cell attribute order)", 6)] };
    let ind = if CORE_ONLY.with(|c| c.get()) { 0 } else { ch.choose("document-indented (no / LF line ends / CR LF line ends)", 3) };
    let book = OBook { sheets: vec![OSheet { name: "S".into(), rows, display: None }], xml_comments: doc_flag(ch, "xml-comments-inside-and-between-rows"), indent: ind > 0, crlf: ind == 2, cell_attr_order: form.1, row_wrappers: form.0, ..Default::default() };
    (book, grid, desc)
}

fn shape_tag(g: &G) -> String {
    // what the grid looks like: first used column, interior empty rows, repeats
    let first_col = g.iter().filter_map(|r| r.iter().position(|c| *c != 0)).min().unwrap_or(0);
    let used: Vec<bool> = g.iter().map(|r| r.iter().any(|c| *c != 0)).collect();
    let first = used.iter().position(|u| *u);
    let last = used.iter().rposition(|u| *u);
    let interior_empty = match (first, last) { (Some(a), Some(b)) => used[a..=b].iter().any(|u| !*u), _ => false };
    format!("col0={}{}{}", if first_col == 0 { "A" } else { ">A" }, if first.unwrap_or(0) > 0 { ",leading-rows" } else { "" }, if interior_empty { ",interior-empty-row" } else { "" })
}

fn run_case(rep: &Report, ch: &mut Chooser, g: &G, ka: usize, kb: usize, local: &mut Vec<(u64, bool, u64)>, dry: bool) {
    let (book, grid, desc) = build(ch, g, ka, kb);
    if dry { return; }
    let bytes = write(&book, if ch.flag("zip-stored") { Method::Stored } else { Method::Deflated });
    rep.eval(1);
    let replay = || Replay { json: json!({"grid": g, "ka": ka, "kb": kb, "choices": ch.choices(), "document_level_choices_fixed": CORE_ONLY.with(|c| c.get()), "case": desc}), files: vec![("ods".into(), bytes.clone())] };
    let res = guarded(|| -> Result<Result<(), (String, String)>, String> {
        let mut wb: Ods<_> = Ods::new(Cursor::new(bytes.clone())).map_err(|e| format!("open: {e:?}"))?;
        let r = wb.worksheet_range("S").map_err(|e| format!("worksheet_range: {e:?}"))?;
        Ok(check_range(&r, &grid))
    });
    let tag = shape_tag(g);
    let outcome = match &res {
        Err(p) => {
            let site = normalise_site(p.rsplit(" @ ").next().unwrap_or(""));
            rep.fail(&format!("panic/{site}"), &format!("reader panicked: {p}"), replay);
            hash_of(p)
        }
        Ok(Err(e)) => {
            let class: String = e.chars().take_while(|c| *c != '(' && *c != '{').collect();
            rep.fail(&format!("error/{}", class.trim()), &format!("well-formed ods rejected: {e}"), replay);
            hash_of(e)
        }
        Ok(Ok(Err((kind, detail)))) => { rep.fail(&format!("{kind}/{tag}"), detail, replay); hash_of(detail) }
        Ok(Ok(Ok(()))) => hash_of(&format!("{grid:?}")),
    };
    local.push((hash_of(&bytes), !ch.is_default(), outcome));
    if rep.want_sample() && ch.choices().iter().filter(|x| **x != 0).count() >= 2 { rep.sample(desc.clone()); }
}

/// all grids rows x cols over {0,1,2} with between 1 and `maxn` non-empty cells
fn grids(rows: usize, cols: usize, maxn: usize) -> Vec<G> {
    let n = rows * cols;
    let mut out = vec![];
    fn rec(i: usize, n: usize, left: usize, cur: &mut Vec<u8>, out: &mut Vec<Vec<u8>>) {
        if i == n { if cur.iter().any(|c| *c != 0) { out.push(cur.clone()); } return; }
        cur.push(0); rec(i + 1, n, left, cur, out); cur.pop();
        if left > 0 { for v in 1..=2u8 { cur.push(v); rec(i + 1, n, left - 1, cur, out); cur.pop(); } }
    }
    let mut flat = vec![];
    rec(0, n, maxn, &mut vec![], &mut flat);
    for f in flat { out.push(f.chunks(cols).map(|c| c.to_vec()).collect()); }
    out
}

pub fn check(rep: &Report) {
    let t = crate::thorough(&rep.tier);
    rep.rule("logical grid = every rows x cols grid (quick: up to 3x3, 4x2 and 2x4 with 1..=3 non-empty cells, 4x3 and 3x4 with 1..=2; thorough: up to 3x3 with 1..=4, 4x2 / 2x4 / 4x3 / 3x4 with 1..=3, 5x4 / 2x5 with 1..=2) over {empty, A, B}, so every first used row/column and every interior/leading/trailing empty run occurs; A/B range over 9 value kinds; encoding = every composition of every maximal run of equal cells and equal rows, covered cells for empties, XML comments inside and between rows, the document indented with LF or CR LF line ends, rows inside table:table-header-rows / table:table-row-group / table:table-rows, trailing empties {absent, x1/exact, +1020, to column 16384}, trailing rows {absent, exact, +1000, to row 1048576}, stored/deflated; all vectors with <= 2 (thorough 3; on grids above 9 cells the third deviation only among the run-length / covering / trailing choices) deviations, plus the full product of the run-length / covering / trailing choices when it is <= limit; non-trivial = non-default encoding; distinct by file bytes");
    rep.assume("empty-string cells are not generated; white space between elements is the indentation of the document-level choice (none / LF / CR LF line ends), never inside a paragraph");
    // (rows, cols, max non-empty cells, deviation bound over all choices, deviation bound over the run-length / covering / trailing choices)
    let dims: Vec<(usize, usize, usize, usize, usize)> = if t { vec![(1, 1, 1, 3, 3), (2, 2, 4, 3, 3), (3, 3, 3, 2, 3), (3, 3, 4, 2, 2), (4, 2, 3, 2, 2), (2, 4, 3, 2, 2), (4, 3, 3, 2, 2), (3, 4, 3, 2, 2), (5, 4, 2, 2, 2), (2, 5, 2, 2, 2)] } else { vec![(1, 1, 1, 2, 2), (2, 2, 3, 2, 2), (3, 3, 3, 2, 2), (4, 2, 3, 2, 2), (2, 4, 3, 2, 2), (4, 3, 2, 2, 2), (3, 4, 2, 2, 2)] };
    let mut jobs: Vec<(G, usize, usize, usize, usize)> = vec![];
    for (r, c, maxn, dev_all, dev_core) in dims {
        for (i, g) in grids(r, c, maxn).into_iter().enumerate() {
            // value kinds rotate deterministically with the grid index so every kind pair occurs
            let ka = i % 9;
            let kb = (i / 9 + ka + 1 + (i % 7)) % 9;
            let kb = if kb == ka { (kb + 1) % 9 } else { kb };
            jobs.push((g, ka, kb, dev_all, dev_core));
        }
    }
    let stats = Mutex::new(Stats::default());
    let limit = if t { 20_000.0 } else { 150.0 };
    let full = std::sync::atomic::AtomicU64::new(0);
    // grids are explored in the order listed (small first); a wall cap keeps the thorough tier bounded on a busy machine: grids
    // not started within it are counted and reported, never silently dropped
    let deadline = std::time::Instant::now() + std::time::Duration::from_secs(if t { 1200 } else { 45 });
    let skipped = std::sync::atomic::AtomicU64::new(0);
    jobs.par_iter().for_each(|(g, ka, kb, dev_all, dev)| {
        if std::time::Instant::now() > deadline { skipped.fetch_add(1, std::sync::atomic::Ordering::Relaxed); return; }
        let (dev_all, dev) = (*dev_all, *dev);
        crate::engine::crumb::set_job(&format!("C04 grid={g:?} ka={ka} kb={kb}"));
        let mut st = Stats::default();
        let mut local = vec![];
        // (1) all choices, bounded deviations; (2) the run-length / covering / trailing choices alone one deviation deeper on the
        // larger grids and in their full product where that is small
        explore_deviations(|ch| run_case(rep, ch, g, *ka, *kb, &mut local, false), dev_all, &mut st);
        CORE_ONLY.with(|c| c.set(true));
        if dev_all < dev { explore_deviations(|ch| run_case(rep, ch, g, *ka, *kb, &mut local, false), dev, &mut st); }
        let est = estimate_product(|ch| run_case(rep, ch, g, *ka, *kb, &mut vec![], true));
        if est * 2.0 <= limit {
            explore_full(|ch| run_case(rep, ch, g, *ka, *kb, &mut local, false), &mut st, u64::MAX);
            full.fetch_add(1, std::sync::atomic::Ordering::Relaxed);
        }
        CORE_ONLY.with(|c| c.set(false));
        rep.cases_bulk(&local);
        stats.lock().unwrap().merge(&st);
        crate::engine::crumb::clear();
    });
    let st = stats.lock().unwrap();
    rep.add_states(st.nodes, st.edges);
    rep.trace(st.executions);
    rep.extra("logical_grids", json!(jobs.len()));
    rep.extra("grids_with_full_encoding_product", json!(full.load(std::sync::atomic::Ordering::Relaxed)));
    rep.extra("deviation_bounds", json!(if t { "3 on 1x1 and 2x2; 2 over all choices + 3 over the run-length / covering / trailing choices on 3x3 with <= 3 values; 2 elsewhere" } else { "2" }));
    rep.extra("choice_labels_covered", st.label_summary());
    let sk = skipped.load(std::sync::atomic::Ordering::Relaxed);
    rep.extra("grids_not_started_within_the_wall_cap", json!(sk));
    if sk > 0 { rep.cap(&format!("wall cap: {sk} of {} grids not explored", jobs.len())); } else { rep.exhaustive(true); }
}

pub fn replay(path: &str) -> i32 {
    let Ok(s) = std::fs::read_to_string(path) else { return 2 };
    let v: serde_json::Value = serde_json::from_str(&s).unwrap();
    let choices: Vec<u32> = v["choices"].as_array().unwrap().iter().map(|x| x.as_u64().unwrap() as u32).collect();
    let g: G = v["grid"].as_array().unwrap().iter().map(|r| r.as_array().unwrap().iter().map(|c| c.as_u64().unwrap() as u8).collect()).collect();
    let (ka, kb) = (v["ka"].as_u64().unwrap() as usize, v["kb"].as_u64().unwrap() as usize);
    let mut outs = vec![];
    CORE_ONLY.with(|c| c.set(v["document_level_choices_fixed"].as_bool().unwrap_or(false)));
    for _ in 0..2 {
        let mut o = String::new();
        run_one(|ch| {
            let (book, grid, _) = build(ch, &g, ka, kb);
            let bytes = write(&book, if ch.flag("zip-stored") { Method::Stored } else { Method::Deflated });
            o = format!("{:?}\nexpected cells: {:?}", guarded(|| crate::props::dump::dump_ods(&bytes)), grid);
        }, &choices);
        outs.push(o);
    }
    if outs[0] != outs[1] { eprintln!("MACHINERY: replay not deterministic"); return 2; }
    println!("case: {}\nrecorded: {}\nobserved now: {}", v["case"], v["what"], outs[0]);
    0
}
