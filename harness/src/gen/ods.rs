//! ODS (ODF 1.2 spreadsheet) writer with explicit run-length variation points.
use super::xml::{esc, esc_text};
use super::zipw::{Method, ZipW};

pub const MIMETYPE: &str = "application/vnd.oasis.opendocument.spreadsheet";

#[derive(Clone, Copy, Debug, PartialEq)]
pub enum SpaceMode {
    /// spaces literal (first of a run literal, as writers do, the rest literal too)
    Literal,
    /// second and later spaces of a run as `<text:s text:c="n"/>` (what LibreOffice writes)
    TextS,
    /// every space of a run, including the first, as text:s elements (one element per run)
    TextSAll,
    /// one `<text:s/>` element per space
    TextSEach,
}

#[derive(Clone, Debug, PartialEq)]
pub enum OVal {
    Empty,
    /// (value text, office:value-type: float | percentage | currency)
    Float(String, &'static str),
    /// string by office:string-value attribute (content repeats it)
    StrAttr(String),
    /// string by office:string-value attribute only: the element has no text:p child
    StrAttrBare(String),
    /// string by element content: paragraphs split at '\n'
    StrContent(String, SpaceMode, bool /* wrap in text:span */),
    Bool(bool),
    Date(String),
    Time(String),
}

#[derive(Clone, Debug, PartialEq)]
pub struct OCell {
    pub val: OVal,
    pub formula: Option<String>,
    pub covered: bool,
    /// a cell comment (office:annotation with its own paragraphs) before the cell's text: not part of the value
    pub annotation: bool,
    /// (columns, rows) a merged region starting at this cell spans; the cells it hides follow as covered cells
    pub spanned: Option<(u32, u32)>,
}
impl OCell {
    pub fn new(val: OVal) -> OCell { OCell { val, formula: None, covered: false, annotation: false, spanned: None } }
    pub fn empty() -> OCell { OCell::new(OVal::Empty) }
}

#[derive(Clone, Debug)]
pub struct ORow {
    /// (cell, number-columns-repeated)
    pub cells: Vec<(OCell, u32)>,
    /// number-rows-repeated
    pub repeat: u32,
}

#[derive(Clone, Debug)]
pub struct OSheet {
    pub name: String,
    pub rows: Vec<ORow>,
    /// Some(false) = hidden via table:display="false"
    pub display: Option<bool>,
}

#[derive(Clone, Debug, Default)]
pub struct OBook {
    pub sheets: Vec<OSheet>,
    /// (name, Some(cell-range-address) | None, Some(expression))
    pub named: Vec<(String, Option<String>, Option<String>)>,
    /// manifest entries carrying encryption-data: indices into the file-entry list (for C20)
    pub encrypted_entries: Vec<usize>,
    pub extra_manifest_entries: usize,
    /// write table:name as the last attribute of named ranges / expressions instead of the first
    pub named_name_last: bool,
    /// OpenPGP style encryption (ODF 1.3): a manifest:keyinfo element with nested elements precedes the file entries
    pub manifest_keyinfo: bool,
    /// indent the document: a line break and two spaces per level between elements, never inside a paragraph
    /// (LibreOffice writes this when 'size optimisation for ODF' is switched off)
    pub indent: bool,
    /// with `indent`: line ends are CR LF instead of LF (XML 1.0 2.11: both are line ends; both are white space, production S)
    pub crlf: bool,
    /// styles of other families reuse the names of the table styles (names are unique per family only) and follow them
    pub style_name_collision: bool,
    /// a table:dde-links block after the sheets: its cached-values table has no name and is not a sheet
    pub dde_links: bool,
    /// grouping elements around rows / columns (ODF 1.2 9.1.2): 0 none; 1 the first row in table:table-header-rows (print
    /// titles); 2 all rows in one table:table-row-group (an outline); 3 header rows + the rest in table:table-rows, and
    /// the column declaration in table:table-header-columns
    pub row_wrappers: u8,
    /// order of the attributes of a cell element: 0 formula, span, type, value (LibreOffice); 1 type, value, style, span,
    /// formula; 2 value, type, validation, formula, repeat, span
    pub cell_attr_order: u8,
    /// XML comments and line breaks in the manifest: between the entries and between a file-entry start tag and its
    /// encryption-data child
    pub manifest_comments: bool,
    /// write plain manifest entries as start tag + end tag instead of an empty-element tag
    pub manifest_end_tags: bool,
    /// XML comments (with text) inside content.xml: before and between the cells of a row, between rows and tables
    pub xml_comments: bool,
}

fn spaces_xml(n: usize, mode: SpaceMode, at_start: bool) -> String {
    match mode {
        SpaceMode::Literal => " ".repeat(n),
        SpaceMode::TextS => {
            // a leading space of a paragraph must be text:s too (ODF 1.2 §6.1.2 white-space collapsing)
            if at_start { if n == 1 { "<text:s/>".into() } else { format!("<text:s text:c=\"{n}\"/>") } }
            else if n == 1 { " ".into() } else if n == 2 { " <text:s/>".into() } else { format!(" <text:s text:c=\"{}\"/>", n - 1) }
        }
        SpaceMode::TextSAll => if n == 1 { "<text:s/>".into() } else { format!("<text:s text:c=\"{n}\"/>") },
        SpaceMode::TextSEach => "<text:s/>".repeat(n),
    }
}

pub fn para_xml(p: &str, mode: SpaceMode, span: bool) -> String {
    let mut o = String::new();
    let chars: Vec<char> = p.chars().collect();
    let mut i = 0;
    while i < chars.len() {
        if chars[i] == ' ' {
            let mut j = i;
            while j < chars.len() && chars[j] == ' ' { j += 1; }
            o.push_str(&spaces_xml(j - i, mode, i == 0));
            i = j;
        } else {
            let mut j = i;
            while j < chars.len() && chars[j] != ' ' { j += 1; }
            let t: String = chars[i..j].iter().collect();
            // a tab is written as the text:tab element (ODF 1.2 part 1, 6.1.4): a literal tab would be collapsed white space
            let enc = |t: &str| esc_text(t).replace('\t', "<text:tab/>");
            if span { o.push_str(&format!("<text:span>{}</text:span>", enc(&t))); } else { o.push_str(&enc(&t)); }
            i = j;
        }
    }
    o
}

fn cell_xml(c: &OCell, rep: u32, order: u8) -> String {
    let tag = if c.covered { "table:covered-table-cell" } else { "table:table-cell" };
    // attribute groups: repeat, formula, span, value type, value
    let (mut a_rep, mut a_f, mut a_span, mut a_ty, mut a_val) = (String::new(), String::new(), String::new(), String::new(), String::new());
    if rep != 1 { a_rep = format!(" table:number-columns-repeated=\"{rep}\""); }
    if let Some(f) = &c.formula { a_f = format!(" table:formula=\"{}\"", esc(f)); }
    if let Some((sc, sr)) = c.spanned { a_span = format!(" table:number-columns-spanned=\"{sc}\" table:number-rows-spanned=\"{sr}\""); }
    let mut body = String::new();
    match &c.val {
        OVal::Empty => {}
        OVal::Float(v, ty) => {
            a_ty = format!(" office:value-type=\"{ty}\"");
            if *ty == "currency" { a_ty.push_str(" office:currency=\"EUR\""); }
            a_val = format!(" office:value=\"{v}\"");
            body = format!("<text:p>{}</text:p>", esc_text(v));
        }
        OVal::StrAttrBare(s) => {
            a_ty = " office:value-type=\"string\"".into();
            a_val = format!(" office:string-value=\"{}\"", esc(s));
        }
        OVal::StrAttr(s) => {
            a_ty = " office:value-type=\"string\"".into();
            a_val = format!(" office:string-value=\"{}\"", esc(s));
            body = format!("<text:p>{}</text:p>", para_xml(&s.replace('\n', " "), SpaceMode::TextS, false));
        }
        OVal::StrContent(s, mode, span) => {
            a_ty = " office:value-type=\"string\"".into();
            for p in s.split('\n') { body.push_str(&format!("<text:p>{}</text:p>", para_xml(p, *mode, *span))); }
        }
        OVal::Bool(b) => {
            a_ty = " office:value-type=\"boolean\"".into();
            a_val = format!(" office:boolean-value=\"{b}\"");
            body = format!("<text:p>{}</text:p>", if *b { "TRUE" } else { "FALSE" });
        }
        OVal::Date(d) => {
            a_ty = " office:value-type=\"date\"".into();
            a_val = format!(" office:date-value=\"{d}\"");
            body = format!("<text:p>{d}</text:p>");
        }
        OVal::Time(t) => {
            a_ty = " office:value-type=\"time\"".into();
            a_val = format!(" office:time-value=\"{t}\"");
            body = format!("<text:p>{t}</text:p>");
        }
    }
    // XML attributes are unordered: LibreOffice writes the formula first, a serialiser that sorts them writes it last
    let a = match order {
        0 => format!("{a_rep}{a_f}{a_span}{a_ty}{a_val}"),
        1 => format!("{a_rep}{a_ty}{a_val} table:style-name=\"Default\"{a_span}{a_f}"),
        _ => format!("{a_val}{a_ty} table:content-validation-name=\"v1\"{a_f}{a_rep}{a_span}"),
    };
    if c.annotation { body = format!("<office:annotation office:display=\"false\"><dc:date>2021-03-04T05:06:07</dc:date><text:p>note &amp; <text:span>B2</text:span><text:s text:c=\"2\"/>x</text:p><text:p>second</text:p></office:annotation>{body}"); }
    if body.is_empty() { format!("<{tag}{a}/>") } else { format!("<{tag}{a}>{body}</{tag}>") }
}

pub fn content_xml(b: &OBook) -> String {
    let mut o = String::from("<?xml version=\"1.0\" encoding=\"UTF-8\"?>\n<office:document-content xmlns:office=\"urn:oasis:names:tc:opendocument:xmlns:office:1.0\" xmlns:style=\"urn:oasis:names:tc:opendocument:xmlns:style:1.0\" xmlns:text=\"urn:oasis:names:tc:opendocument:xmlns:text:1.0\" xmlns:table=\"urn:oasis:names:tc:opendocument:xmlns:table:1.0\" xmlns:of=\"urn:oasis:names:tc:opendocument:xmlns:of:1.2\" xmlns:dc=\"http://purl.org/dc/elements/1.1/\" office:version=\"1.2\">");
    o.push_str("<office:automatic-styles>");
    o.push_str("<style:style style:name=\"ta1\" style:family=\"table\"><style:table-properties table:display=\"true\"/></style:style>");
    o.push_str("<style:style style:name=\"ta2\" style:family=\"table\"><style:table-properties table:display=\"false\"/></style:style>");
    if b.style_name_collision {
        o.push_str("<style:style style:name=\"ta1\" style:family=\"table-column\"><style:table-column-properties style:column-width=\"2cm\"/></style:style>");
        o.push_str("<style:style style:name=\"ta2\" style:family=\"table-row\"><style:table-row-properties style:row-height=\"1cm\"/></style:style>");
        o.push_str("<style:style style:name=\"ta2\" style:family=\"table-cell\"/>");
    }
    o.push_str("</office:automatic-styles><office:body><office:spreadsheet>");
    for s in &b.sheets {
        let st = match s.display { None => String::new(), Some(true) => " table:style-name=\"ta1\"".into(), Some(false) => " table:style-name=\"ta2\"".into() };
        o.push_str(&format!("<table:table table:name=\"{}\"{st}>{}", esc(&s.name), if b.row_wrappers == 3 { "<table:table-header-columns><table:table-column table:number-columns-repeated=\"4\"/></table:table-header-columns>" } else { "<table:table-column table:number-columns-repeated=\"4\"/>" }));
        let n = s.rows.len();
        for (i, r) in s.rows.iter().enumerate() {
            match (b.row_wrappers, i) { (1 | 3, 0) => o.push_str("<table:table-header-rows>"), (2, 0) => o.push_str("<table:table-row-group>"), (3, 1) => o.push_str("<table:table-rows>"), _ => {} }
            if r.repeat != 1 { o.push_str(&format!("<table:table-row table:number-rows-repeated=\"{}\">", r.repeat)); } else { o.push_str("<table:table-row>"); }
            if b.xml_comments { o.push_str("<!-- first cell of the row -->"); }
            if r.cells.is_empty() { o.push_str("<table:table-cell/>"); }
            for (ci, (c, rep)) in r.cells.iter().enumerate() { if b.xml_comments && ci > 0 { o.push_str("<!--next-->"); } o.push_str(&cell_xml(c, *rep, b.cell_attr_order)); }
            if b.xml_comments { o.push_str("<!-- end of row -->"); }
            o.push_str("</table:table-row>");
            if b.xml_comments { o.push_str("<!-- between rows -->"); }
            if matches!(b.row_wrappers, 1 | 3) && i == 0 { o.push_str("</table:table-header-rows>"); }
            if b.row_wrappers == 2 && i + 1 == n { o.push_str("</table:table-row-group>"); }
            if b.row_wrappers == 3 && i + 1 == n && i >= 1 { o.push_str("</table:table-rows>"); }
        }
        o.push_str("</table:table>");
    }
    if !b.named.is_empty() {
        o.push_str("<table:named-expressions>");
        for (n, range, expr) in &b.named {
            if let Some(r) = range {
                if b.named_name_last { o.push_str(&format!("<table:named-range table:base-cell-address=\"$Sheet1.$A$1\" table:cell-range-address=\"{}\" table:name=\"{}\"/>", esc(r), esc(n))); continue; }
                o.push_str(&format!("<table:named-range table:name=\"{}\" table:base-cell-address=\"$Sheet1.$A$1\" table:cell-range-address=\"{}\"/>", esc(n), esc(r)));
            } else if let Some(e) = expr {
                if b.named_name_last { o.push_str(&format!("<table:named-expression table:base-cell-address=\"$Sheet1.$A$1\" table:expression=\"{}\" table:name=\"{}\"/>", esc(e), esc(n))); continue; }
                o.push_str(&format!("<table:named-expression table:name=\"{}\" table:base-cell-address=\"$Sheet1.$A$1\" table:expression=\"{}\"/>", esc(n), esc(e)));
            }
        }
        o.push_str("</table:named-expressions>");
    }
    if b.dde_links {
        o.push_str("<table:dde-links><table:dde-link><office:dde-source office:dde-application=\"soffice\" office:dde-topic=\"/tmp/x.ods\" office:dde-item=\"Sheet1.A1\"/><table:table><table:table-column/><table:table-row><table:table-cell office:value-type=\"float\" office:value=\"7\"/></table:table-row></table:table></table:dde-link></table:dde-links>");
    }
    o.push_str("</office:spreadsheet></office:body></office:document-content>");
    o
}

pub fn manifest_xml(b: &OBook) -> String {
    let mut o = String::from("<?xml version=\"1.0\" encoding=\"UTF-8\"?>\n<manifest:manifest xmlns:manifest=\"urn:oasis:names:tc:opendocument:xmlns:manifest:1.0\" manifest:version=\"1.2\">");
    let mut entries: Vec<(String, String)> = vec![("/".into(), MIMETYPE.into()), ("content.xml".into(), "text/xml".into()), ("styles.xml".into(), "text/xml".into())];
    for i in 0..b.extra_manifest_entries { entries.push((format!("Pictures/p{i}.png"), "image/png".into())); }
    if b.manifest_keyinfo {
        o.push_str("<manifest:keyinfo><manifest:encrypted-key><manifest:encryption-method manifest:PGPAlgorithm=\"http://www.gnu.org/prep/standards/pgp\"/><manifest:keyinfo-data><manifest:PGPData><manifest:PGPKeyID>AAAA</manifest:PGPKeyID><manifest:PGPKeyPacket>AAAA</manifest:PGPKeyPacket></manifest:PGPData></manifest:keyinfo-data><manifest:CipherData><manifest:CipherValue>AAAA</manifest:CipherValue></manifest:CipherData></manifest:encrypted-key></manifest:keyinfo>");
    }
    for (i, (p, m)) in entries.iter().enumerate() {
        if b.encrypted_entries.contains(&i) {
            o.push_str(&format!("<manifest:file-entry manifest:full-path=\"{p}\" manifest:media-type=\"{m}\" manifest:size=\"100\"><manifest:encryption-data manifest:checksum-type=\"urn:oasis:names:tc:opendocument:xmlns:manifest:1.0#sha256-1k\" manifest:checksum=\"AAAA\"><manifest:algorithm manifest:algorithm-name=\"http://www.w3.org/2001/04/xmlenc#aes256-cbc\" manifest:initialisation-vector=\"AAAA\"/><manifest:key-derivation manifest:key-derivation-name=\"PBKDF2\" manifest:key-size=\"32\" manifest:iteration-count=\"100000\" manifest:salt=\"AAAA\"/><manifest:start-key-generation manifest:start-key-generation-name=\"http://www.w3.org/2000/09/xmldsig#sha256\" manifest:key-size=\"32\"/></manifest:encryption-data></manifest:file-entry>"));
        } else {
            if b.manifest_end_tags { o.push_str(&format!("<manifest:file-entry manifest:full-path=\"{p}\" manifest:media-type=\"{m}\"></manifest:file-entry>")); }
            else { o.push_str(&format!("<manifest:file-entry manifest:full-path=\"{p}\" manifest:media-type=\"{m}\"/>")); }
        }
    }
    o.push_str("</manifest:manifest>");
    if b.manifest_comments {
        o = o.replace("<manifest:encryption-data ", "\n  <!-- encrypted with the document password -->\n  <manifest:encryption-data ").replace("<manifest:file-entry ", "\n <!-- e --><manifest:file-entry ").replace("</manifest:manifest>", "\n</manifest:manifest>");
    }
    o
}

pub fn write_with_content(b: &OBook, content: &[u8], method: Method) -> Vec<u8> {
    let mut z = ZipW::new();
    z.add("mimetype", MIMETYPE.as_bytes(), Method::Stored);
    z.add("META-INF/manifest.xml", manifest_xml(b).as_bytes(), method);
    z.add("content.xml", content, method);
    z.add("styles.xml", b"<?xml version=\"1.0\" encoding=\"UTF-8\"?>\n<office:document-styles xmlns:office=\"urn:oasis:names:tc:opendocument:xmlns:office:1.0\" office:version=\"1.2\"/>", method);
    z.finish()
}

pub fn write(b: &OBook, method: Method) -> Vec<u8> {
    let c = content_xml(b);
    write_with_content(b, if b.indent { indent_xml_nl(&c, if b.crlf { "\r\n" } else { "\n" }) } else { c }.as_bytes(), method)
}

/// Insert white space between adjacent tags, except inside text:p (where white space is content).
pub fn indent_xml(x: &str) -> String { indent_xml_nl(x, "\n") }

/// `indent_xml` with the given line end ("\n" or "\r\n") in the inserted white space only: text content is left as it is.
pub fn indent_xml_nl(x: &str, nl: &str) -> String {
    let b = x.as_bytes();
    let mut out = String::with_capacity(x.len() * 2);
    let (mut depth, mut p_depth) = (0usize, 0usize);
    let mut i = 0;
    while i < b.len() {
        if b[i] == b'<' {
            let end = i + b[i..].iter().position(|c| *c == b'>').unwrap();
            let tag = &x[i..=end];
            let closing = tag.starts_with("</");
            let selfc = tag.ends_with("/>") || tag.starts_with("<?") || tag.starts_with("<!--");
            if closing { depth = depth.saturating_sub(1); }
            // a tag directly after another tag (no text in between) gets its own line
            if i > 0 && b[i - 1] == b'>' && p_depth == 0 { out.push_str(nl); for _ in 0..depth { out.push_str("  "); } }
            out.push_str(tag);
            if tag.starts_with("<text:p") && (tag.as_bytes()[7] == b'>' || tag.as_bytes()[7] == b' ' || tag.as_bytes()[7] == b'/') && !selfc { p_depth += 1; }
            if tag == "</text:p>" { p_depth -= 1; }
            if !closing && !selfc { depth += 1; }
            i = end + 1;
        } else { let n = b[i..].iter().position(|c| *c == b'<').unwrap_or(b.len() - i); out.push_str(&x[i..i + n]); i += n; }
    }
    out
}
