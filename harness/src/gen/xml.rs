//! XML text helpers.

/// Escape character data / attribute values with the five predefined entities.
pub fn esc(s: &str) -> String {
    let mut o = String::with_capacity(s.len() + 8);
    for c in s.chars() {
        match c {
            '&' => o.push_str("&amp;"),
            '<' => o.push_str("&lt;"),
            '>' => o.push_str("&gt;"),
            '"' => o.push_str("&quot;"),
            '\'' => o.push_str("&apos;"),
            // literal tab/CR/LF in attribute values would be normalised by a conforming parser: use char refs
            '\t' => o.push_str("&#9;"),
            '\n' => o.push_str("&#10;"),
            '\r' => o.push_str("&#13;"),
            c => o.push(c),
        }
    }
    o
}

/// Escape for element content only (&, <, >), leaving quotes and whitespace literal.
pub fn esc_text(s: &str) -> String {
    let mut o = String::with_capacity(s.len() + 8);
    for c in s.chars() {
        match c {
            '&' => o.push_str("&amp;"),
            '<' => o.push_str("&lt;"),
            '>' => o.push_str("&gt;"),
            '\r' => o.push_str("&#13;"),
            c => o.push(c),
        }
    }
    o
}

/// Every character as a decimal (`hex=false`) or hexadecimal character reference.
pub fn charrefs(s: &str, hex: bool) -> String {
    s.chars().map(|c| if hex { format!("&#x{:X};", c as u32) } else { format!("&#{};", c as u32) }).collect()
}

/// Spreadsheet column letters for a 0-based column index.
pub fn col_name(mut c: u32) -> String {
    let mut v = vec![];
    c += 1;
    while c > 0 {
        v.push(b'A' + ((c - 1) % 26) as u8);
        c = (c - 1) / 26;
    }
    v.reverse();
    String::from_utf8(v).unwrap()
}

/// "A1"-style name of a 0-based (row, col).
pub fn a1(row: u32, col: u32) -> String {
    format!("{}{}", col_name(col), row + 1)
}
