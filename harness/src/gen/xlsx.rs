//! XLSX (ECMA-376 SpreadsheetML) writer with explicit legal variation points.
use super::xml::{a1, charrefs, esc, esc_text};
use super::zipw::{Method, ZipW};

pub const NS_MAIN: &str = "http://schemas.openxmlformats.org/spreadsheetml/2006/main";
pub const NS_REL: &str = "http://schemas.openxmlformats.org/officeDocument/2006/relationships";
pub const NS_PKG_REL: &str = "http://schemas.openxmlformats.org/package/2006/relationships";

#[derive(Clone, Copy, Debug, PartialEq, Default)]
pub enum TextEnc {
    #[default]
    Entities,
    DecRefs,
    HexRefs,
    CData,
    /// first half in a CDATA section, a comment, second half as escaped text (several XML events for one text)
    Mixed,
}

/// character data of one <t>/<v>/<f> element
pub fn text_content(s: &str, enc: TextEnc) -> String {
    match enc {
        TextEnc::Entities => esc_text(s),
        TextEnc::DecRefs => charrefs(s, false),
        TextEnc::HexRefs => charrefs(s, true),
        TextEnc::CData => {
            // "]]>" cannot occur inside one CDATA section: split it
            format!("<![CDATA[{}]]>", s.replace("]]>", "]]]]><![CDATA[>"))
        }
        TextEnc::Mixed => {
            let k = s.char_indices().nth(s.chars().count() / 2).map(|x| x.0).unwrap_or(0);
            format!("<![CDATA[{}]]><!-- m -->{}", s[..k].replace("]]>", "]]]]><![CDATA[>"), esc_text(&s[k..]))
        }
    }
}

#[derive(Clone, Debug, PartialEq)]
pub enum XRun {
    /// bare `<t>` (only legal as the single text child)
    T(String),
    /// `<r><rPr/>?<t>..</t></r>`
    R(String),
    /// phonetic run `<rPh sb= eb=><t>..</t></rPh>` — contributes nothing
    RPh(String),
    /// `<phoneticPr fontId="1"/>`
    PhoneticPr,
}

#[derive(Clone, Debug, PartialEq, Default)]
pub struct XText {
    pub runs: Vec<XRun>,
    pub enc: TextEnc,
}
impl XText {
    pub fn plain(s: &str) -> XText {
        XText { runs: vec![XRun::T(s.to_string())], enc: TextEnc::Entities }
    }
    pub fn logical(&self) -> String {
        self.runs.iter().map(|r| match r { XRun::T(s) | XRun::R(s) => s.as_str(), _ => "" }).collect()
    }
}

#[derive(Clone, Debug, PartialEq)]
pub enum XVal {
    /// `<v>` numeric text
    Num(String),
    SharedStr(usize),
    InlineStr(XText),
    /// t="str"
    Str(String, TextEnc),
    Bool(bool),
    Err(String),
    IsoDate(String),
    /// no value child
    None,
}

#[derive(Clone, Debug, PartialEq)]
pub enum XFormula {
    Plain(String),
    SharedMaster { si: u32, rf: String, text: String },
    SharedChild { si: u32 },
}

#[derive(Clone, Debug, PartialEq)]
pub struct XCell {
    pub row: u32,
    pub col: u32,
    pub val: XVal,
    pub style: Option<u32>,
    pub formula: Option<XFormula>,
}
impl XCell {
    pub fn new(row: u32, col: u32, val: XVal) -> XCell {
        XCell { row, col, val, style: None, formula: None }
    }
}

#[derive(Clone, Copy, Debug, PartialEq)]
pub enum SheetKind { Work, Chart, Dialog, Macro }

#[derive(Clone, Debug)]
pub struct XTable {
    pub name: String,
    pub display_name: String,
    pub rf: String,
    pub header_rows: Option<u32>,
    pub totals_rows: Option<u32>,
    /// totalsRowShown: whether a totals row was shown the last time one existed — says nothing about one existing now
    pub totals_row_shown: Option<bool>,
    pub columns: Vec<String>,
    /// what Excel writes besides: autoFilter (with header rows), a calculated column, tableStyleInfo and the x14:table
    /// alt-text extension in extLst (an element whose local name is `table` again)
    pub extras: bool,
}

#[derive(Clone, Debug)]
pub struct XSheet {
    pub name: String,
    pub kind: SheetKind,
    pub state: Option<&'static str>,
    pub cells: Vec<XCell>,
    pub merges: Vec<String>,
    pub tables: Vec<XTable>,
}
impl XSheet {
    pub fn new(name: &str, cells: Vec<XCell>) -> XSheet {
        XSheet { name: name.to_string(), kind: SheetKind::Work, state: None, cells, merges: vec![], tables: vec![] }
    }
}

#[derive(Clone, Debug, Default)]
pub struct XStyles {
    pub num_fmts: Vec<(u32, String)>,
    /// numFmtId of each cellXfs entry
    pub cell_xfs: Vec<u32>,
    /// decoy: numFmtIds of cellStyleXfs (must not be consulted for cells)
    pub cell_style_xfs: Vec<u32>,
    /// leave the optional numFmtId attribute out of cellXfs entries whose format is General (id 0, the schema default)
    pub omit_general_numfmt: bool,
}

#[derive(Clone, Copy, Debug, PartialEq)]
pub enum DimMode { Exact, Absent, TooSmall, TooLarge,
    /// more than one cell, but only the first used row (and one column too many): advisory and out of date
    StaleRows }
#[derive(Clone, Copy, Debug, PartialEq)]
pub enum RMode { Explicit, Implicit }
#[derive(Clone, Copy, Debug, PartialEq)]
pub enum TargetMode { Relative, AbsoluteXl }

#[derive(Clone, Debug)]
pub struct XEnc {
    pub prefix: bool,
    pub row_r: RMode,
    pub cell_r: RMode,
    pub dim: DimMode,
    pub target: TargetMode,
    pub upper_parts: bool,
    /// the top-level folder itself in another case (XL/...), on top of `upper_parts`
    pub upper_root: bool,
    /// applyNumberFormat on cellXfs entries: 0 = "1", 1 = attribute absent, 2 = "0" (the number format still applies: the apply* attributes are hints for the style dialog)
    pub apply_nf: u8,
    pub method: Method,
    /// write t="n" on numeric cells instead of leaving t out
    pub explicit_t_n: bool,
    /// emit empty `<row>` elements for rows in gaps (only with explicit row r)
    pub empty_rows: bool,
    /// put sharedStrings/styles after the sheets in the archive
    pub reorder_members: bool,
    /// relationship ids do not follow the sheet order (sheet i <-> rId(n+1-i)) and are listed in reverse
    pub rid_shuffle: bool,
    /// every XML part indented: a line break and two spaces per level between adjacent tags (never between an opening tag
    /// and its own closing tag, never next to text)
    pub indent: bool,
    /// with `indent`: the inserted line ends are CR LF instead of LF (XML 1.0 2.3 production S: both are white space)
    pub crlf: bool,
    /// in every .rels part write Target before Type (Id, Target, Type as some writers do)
    pub rels_target_first: bool,
    /// <row> elements never carry r (the cells still do, unless cell_r is implicit too)
    pub rows_never_r: bool,
    /// formula text and defined-name text are interrupted: a CDATA section in the middle of <f>, a comment in the middle of <definedName>
    pub split_text_nodes: bool,
    /// XML comments between adjacent tags of every part
    pub comments: bool,
    /// xsd:boolean attributes spelled true/false instead of 1/0 (date1904)
    pub bool_words: bool,
    /// the sst count attribute is the number of references (here 1), smaller than the number of items (uniqueCount)
    pub sst_count_refs: bool,
    /// <numFmt formatCode=.. numFmtId=..> instead of id first
    pub numfmt_code_first: bool,
    /// members of a shared formula repeat the master's text inside their <f t="shared" si=..> element (ECMA-376 18.3.1.40 allows it;
    /// the member's formula is still the master's, moved)
    pub shared_members_carry_text: bool,
    /// Relationship elements written as start tag + end tag; the optional count attributes (mergeCells, tableColumns, sst) left out
    pub lean_markup: bool,
    /// sheet parts one folder deeper (xl/worksheets/data/sheetN.xml)
    pub sheet_subfolder: bool,
    /// table parts named xl/tbl/tN.xml instead of xl/tables/tableN.xml
    pub odd_table_part_names: bool,
    /// write the attributes of a cell element as t, s, r instead of r, s, t, and those of a shared f element as si, ref, t
    /// instead of t, ref, si (number cells then carry an explicit t="n", so
    /// that there is a t to come first)
    pub cell_attrs_reversed: bool,
    /// the optional neighbours of sheetData a real writer emits: sheetPr, sheetFormatPr, cols, row spans / heights, cell cm/vm/ph
    /// attributes, sheetProtection, autoFilter, conditionalFormatting and dataValidations (with formula elements), pageMargins,
    /// an extLst whose x14 rules contain xm:f / xm:sqref elements, and an extLst as last child of cells in odd columns
    pub extras: bool,
}
impl Default for XEnc {
    fn default() -> Self {
        XEnc {
            prefix: false, row_r: RMode::Explicit, cell_r: RMode::Explicit, dim: DimMode::Exact, target: TargetMode::Relative,
            upper_parts: false, upper_root: false, apply_nf: 0, method: Method::Deflated, explicit_t_n: false, empty_rows: false, reorder_members: false, rid_shuffle: false, indent: false, crlf: false, rels_target_first: false, rows_never_r: false, split_text_nodes: false, comments: false, extras: false, bool_words: false, sst_count_refs: false, numfmt_code_first: false, shared_members_carry_text: false, cell_attrs_reversed: false, odd_table_part_names: false, sheet_subfolder: false, lean_markup: false,
        }
    }
}

#[derive(Clone, Debug, Default)]
pub struct XBook {
    pub sheets: Vec<XSheet>,
    pub sst: Vec<XText>,
    pub styles: Option<XStyles>,
    pub date1904: Option<bool>,
    pub defined_names: Vec<(String, String)>,
    pub vba: Option<Vec<u8>>,
    /// localSheetId of the i-th defined name (a sheet-local name; several sheets may define the same name, e.g. _xlnm.Print_Area)
    pub defined_name_local_sheet: Vec<Option<u32>>,
}

struct Tg { p: &'static str }
impl Tg {
    fn o(&self, n: &str) -> String { format!("<{}{}", self.p, n) }
    fn c(&self, n: &str) -> String { format!("</{}{}>", self.p, n) }
}

fn text_el(tg: &Tg, s: &str, enc: TextEnc) -> String {
    let sp = if s.starts_with(char::is_whitespace) || s.ends_with(char::is_whitespace) { " xml:space=\"preserve\"" } else { "" };
    format!("{}{}>{}{}", tg.o("t"), sp, text_content(s, enc), tg.c("t"))
}

fn runs_xml(tg: &Tg, t: &XText) -> String {
    let mut o = String::new();
    for r in &t.runs {
        match r {
            XRun::T(s) => o.push_str(&text_el(tg, s, t.enc)),
            XRun::R(s) => {
                o.push_str(&format!("{}>{}>{}/>{}{}{}", tg.o("r"), tg.o("rPr"), tg.o("b"), tg.c("rPr"), text_el(tg, s, t.enc), tg.c("r")));
            }
            XRun::RPh(s) => {
                o.push_str(&format!("{} sb=\"0\" eb=\"1\">{}{}", tg.o("rPh"), text_el(tg, s, t.enc), tg.c("rPh")));
            }
            XRun::PhoneticPr => o.push_str(&format!("{} fontId=\"1\"/>", tg.o("phoneticPr"))),
        }
    }
    o
}

fn root_open(tg: &Tg, name: &str) -> String {
    if tg.p.is_empty() {
        format!("<?xml version=\"1.0\" encoding=\"UTF-8\" standalone=\"yes\"?>\n<{name} xmlns=\"{NS_MAIN}\" xmlns:r=\"{NS_REL}\">")
    } else {
        format!("<?xml version=\"1.0\" encoding=\"UTF-8\" standalone=\"yes\"?>\n<x:{name} xmlns:x=\"{NS_MAIN}\" xmlns:r=\"{NS_REL}\">")
    }
}

pub fn sheet_xml(sh: &XSheet, enc: &XEnc, table_rids: &[String]) -> String {
    let tg = Tg { p: if enc.prefix { "x:" } else { "" } };
    let mut o = String::new();
    match sh.kind {
        SheetKind::Chart => {
            o.push_str(&root_open(&tg, "chartsheet"));
            o.push_str(&format!("{}>{}/>{}", tg.o("sheetViews"), tg.o("sheetView workbookViewId=\"0\""), tg.c("sheetViews")));
            o.push_str(&tg.c("chartsheet"));
            return o;
        }
        SheetKind::Dialog => {
            o.push_str(&root_open(&tg, "dialogsheet"));
            o.push_str(&format!("{}>{}/>{}", tg.o("sheetViews"), tg.o("sheetView workbookViewId=\"0\""), tg.c("sheetViews")));
            o.push_str(&tg.c("dialogsheet"));
            return o;
        }
        _ => {}
    }
    o.push_str(&root_open(&tg, "worksheet"));
    if enc.extras { o.push_str(&format!("{}>{} rgb=\"FFFF0000\"/>{}", tg.o("sheetPr"), tg.o("tabColor"), tg.c("sheetPr"))); }
    let mut cells = sh.cells.clone();
    cells.sort_by_key(|c| (c.row, c.col));
    // dimension
    if enc.dim != DimMode::Absent {
        let rf = if cells.is_empty() {
            "A1".to_string()
        } else {
            let (r0, r1) = (cells.iter().map(|c| c.row).min().unwrap(), cells.iter().map(|c| c.row).max().unwrap());
            let (c0, c1) = (cells.iter().map(|c| c.col).min().unwrap(), cells.iter().map(|c| c.col).max().unwrap());
            match enc.dim {
                DimMode::Exact => if (r0, c0) == (r1, c1) { a1(r0, c0) } else { format!("{}:{}", a1(r0, c0), a1(r1, c1)) },
                DimMode::TooSmall => a1(r0, c0),
                DimMode::TooLarge => "A1:XFD1048576".to_string(),
                DimMode::StaleRows => format!("{}:{}", a1(r0, c0), a1(r0, (c0 + 1).min(16383))),
                DimMode::Absent => unreachable!(),
            }
        };
        o.push_str(&format!("{} ref=\"{}\"/>", tg.o("dimension"), rf));
    }
    o.push_str(&format!("{}>{}/>{}", tg.o("sheetViews"), tg.o("sheetView workbookViewId=\"0\""), tg.c("sheetViews")));
    if enc.extras { o.push_str(&format!("{} defaultRowHeight=\"15\"/>{}>{} min=\"1\" max=\"3\" width=\"9.5\" customWidth=\"1\"/>{}", tg.o("sheetFormatPr"), tg.o("cols"), tg.o("col"), tg.c("cols"))); }
    o.push_str(&format!("{}>", tg.o("sheetData")));
    let mut cursor_row = 0u32;
    // false once an r-less row element sat at a row other than the one after its predecessor
    let mut chain_known = true;
    let mut i = 0;
    while i < cells.len() {
        let row = cells[i].row;
        if enc.empty_rows && enc.row_r == RMode::Explicit && row > cursor_row && row - cursor_row <= 3 {
            for r in cursor_row..row {
                o.push_str(&format!("{} r=\"{}\"/>", tg.o("row"), r + 1));
            }
        }
        let implicit_row = (enc.row_r == RMode::Implicit && row == cursor_row) || enc.rows_never_r;
        // the row a reader assumes for an element without r is the one after the previous row element; cells of a row whose
        // own position is only given by its cells must carry r themselves
        let row_known = !implicit_row || (chain_known && row == cursor_row);
        if implicit_row && !row_known { chain_known = false; } else if !implicit_row { chain_known = true; }
        let rx = if enc.extras { " spans=\"1:4\" ht=\"15\" customHeight=\"1\"" } else { "" };
        if implicit_row { o.push_str(&format!("{}{rx}>", tg.o("row"))); } else { o.push_str(&format!("{} r=\"{}\"{rx}>", tg.o("row"), row + 1)); }
        let mut cursor_col = 0u32;
        while i < cells.len() && cells[i].row == row {
            let c = &cells[i];
            let mut attrs = String::new();
            // a cell without r sits at (row cursor, column cursor): legal only where that is the cell's position
            let implicit_cell = enc.cell_r == RMode::Implicit && c.col == cursor_col && row_known;
            let a_r = if !implicit_cell { format!(" r=\"{}\"", a1(c.row, c.col)) } else { String::new() };
            let a_s = c.style.map(|s| format!(" s=\"{s}\"")).unwrap_or_default();
            let a_x = if enc.extras { " cm=\"0\" vm=\"0\" ph=\"1\"" } else { "" };
            let t = match &c.val {
                XVal::Num(_) => if enc.explicit_t_n || enc.cell_attrs_reversed { Some("n") } else { None },
                XVal::SharedStr(_) => Some("s"),
                XVal::InlineStr(_) => Some("inlineStr"),
                XVal::Str(..) => Some("str"),
                XVal::Bool(_) => Some("b"),
                XVal::Err(_) => Some("e"),
                XVal::IsoDate(_) => Some("d"),
                XVal::None => None,
            };
            let a_t = t.map(|t| format!(" t=\"{t}\"")).unwrap_or_default();
            // attributes of an element have no order: r s t as the schema lists them, or t first
            if enc.cell_attrs_reversed { attrs.push_str(&format!("{a_t}{a_x}{a_s}{a_r}")); } else { attrs.push_str(&format!("{a_r}{a_s}{a_x}{a_t}")); }
            let mut body = String::new();
            if let Some(f) = &c.formula {
                match f {
                    XFormula::Plain(s) if enc.split_text_nodes && s.chars().count() >= 3 => {
                        // first character as text, second inside a CDATA section, the rest as text after a comment
                        let cs: Vec<char> = s.chars().collect();
                        body.push_str(&format!("{}>{}<![CDATA[{}]]><!-- rhs -->{}{}", tg.o("f"), esc_text(&cs[0].to_string()), cs[1], esc_text(&cs[2..].iter().collect::<String>()), tg.c("f")));
                    }
                    XFormula::Plain(s) => body.push_str(&format!("{}>{}{}", tg.o("f"), esc_text(s), tg.c("f"))),
                    XFormula::SharedMaster { si, rf, text } if enc.cell_attrs_reversed => body.push_str(&format!("{} si=\"{}\" ref=\"{}\" t=\"shared\">{}{}", tg.o("f"), si, rf, esc_text(text), tg.c("f"))),
                    XFormula::SharedMaster { si, rf, text } => body.push_str(&format!("{} t=\"shared\" ref=\"{}\" si=\"{}\">{}{}", tg.o("f"), rf, si, esc_text(text), tg.c("f"))),
                    XFormula::SharedChild { si } if enc.shared_members_carry_text => {
                        let mt = cells.iter().find_map(|x| match &x.formula { Some(XFormula::SharedMaster { si: s2, text, .. }) if s2 == si => Some(text.clone()), _ => None }).unwrap_or_default();
                        body.push_str(&format!("{} t=\"shared\" si=\"{}\">{}{}", tg.o("f"), si, esc_text(&mt), tg.c("f")));
                    }
                    XFormula::SharedChild { si } if enc.cell_attrs_reversed => body.push_str(&format!("{} si=\"{}\" t=\"shared\"/>", tg.o("f"), si)),
                    XFormula::SharedChild { si } => body.push_str(&format!("{} t=\"shared\" si=\"{}\"/>", tg.o("f"), si)),
                }
            }
            match &c.val {
                // with split_text_nodes a comment interrupts the value text (several XML events for one value)
                XVal::Num(s) if enc.split_text_nodes && s.len() >= 2 => body.push_str(&format!("{}>{}<!--c-->{}{}", tg.o("v"), &s[..1], &s[1..], tg.c("v"))),
                XVal::Num(s) => body.push_str(&format!("{}>{}{}", tg.o("v"), s, tg.c("v"))),
                XVal::SharedStr(ix) => body.push_str(&format!("{}>{}{}", tg.o("v"), ix, tg.c("v"))),
                XVal::InlineStr(t) => body.push_str(&format!("{}>{}{}", tg.o("is"), runs_xml(&tg, t), tg.c("is"))),
                XVal::Str(s, e) => body.push_str(&format!("{}>{}{}", tg.o("v"), text_content(s, *e), tg.c("v"))),
                XVal::Bool(b) => body.push_str(&format!("{}>{}{}", tg.o("v"), if *b { 1 } else { 0 }, tg.c("v"))),
                XVal::Err(s) if enc.split_text_nodes => body.push_str(&format!("{}>{}<!--c-->{}{}", tg.o("v"), esc_text(&s[..2]), esc_text(&s[2..]), tg.c("v"))),
                XVal::Err(s) => body.push_str(&format!("{}>{}{}", tg.o("v"), esc_text(s), tg.c("v"))),
                XVal::IsoDate(s) => body.push_str(&format!("{}>{}{}", tg.o("v"), s, tg.c("v"))),
                XVal::None => {}
            }
            // the schema allows a future-feature extension list as the last child of a cell
            if enc.extras && !body.is_empty() && c.col % 2 == 1 { body.push_str(&format!("{}>{} uri=\"{{F8A3C1D2-0000-4000-8000-00000000C0DE}}\"/>{}", tg.o("extLst"), tg.o("ext"), tg.c("extLst"))); }
            if body.is_empty() { o.push_str(&format!("{}{}/>", tg.o("c"), attrs)); } else { o.push_str(&format!("{}{}>{}{}", tg.o("c"), attrs, body, tg.c("c"))); }
            cursor_col = c.col + 1;
            i += 1;
        }
        o.push_str(&tg.c("row"));
        cursor_row = row + 1;
    }
    o.push_str(&tg.c("sheetData"));
    if enc.extras { o.push_str(&format!("{} sheet=\"1\" objects=\"1\"/>{} ref=\"A1:B2\"/>", tg.o("sheetProtection"), tg.o("autoFilter"))); }
    if !sh.merges.is_empty() {
        if enc.lean_markup { o.push_str(&format!("{}>", tg.o("mergeCells"))); } else { o.push_str(&format!("{} count=\"{}\">", tg.o("mergeCells"), sh.merges.len())); }
        for m in &sh.merges { o.push_str(&format!("{} ref=\"{}\"/>", tg.o("mergeCell"), m)); }
        o.push_str(&tg.c("mergeCells"));
    }
    if enc.extras {
        o.push_str(&format!("{} sqref=\"A1:B2\">{} type=\"expression\" dxfId=\"0\" priority=\"1\">{}>A1&gt;0{}{}{}", tg.o("conditionalFormatting"), tg.o("cfRule"), tg.o("formula"), tg.c("formula"), tg.c("cfRule"), tg.c("conditionalFormatting")));
        o.push_str(&format!("{} count=\"1\">{} type=\"list\" sqref=\"C1\">{}>\"a,b\"{}{}{}", tg.o("dataValidations"), tg.o("dataValidation"), tg.o("formula1"), tg.c("formula1"), tg.c("dataValidation"), tg.c("dataValidations")));
        o.push_str(&format!("{} left=\"0.7\" right=\"0.7\" top=\"0.75\" bottom=\"0.75\" header=\"0.3\" footer=\"0.3\"/>", tg.o("pageMargins")));
    }
    if !table_rids.is_empty() {
        o.push_str(&format!("{} count=\"{}\">", tg.o("tableParts"), table_rids.len()));
        for r in table_rids { o.push_str(&format!("{} r:id=\"{}\"/>", tg.o("tablePart"), r)); }
        o.push_str(&tg.c("tableParts"));
    }
    if enc.extras {
        o.push_str(&format!("{}>{} uri=\"{{78C0D931-6437-407d-A8EE-F0AAD7539E65}}\" xmlns:x14=\"http://schemas.microsoft.com/office/spreadsheetml/2009/9/main\" xmlns:xm=\"http://schemas.microsoft.com/office/excel/2006/main\"><x14:conditionalFormattings><x14:conditionalFormatting><x14:cfRule type=\"expression\" priority=\"2\"><xm:f>B2&gt;1</xm:f></x14:cfRule><xm:sqref>B2</xm:sqref></x14:conditionalFormatting></x14:conditionalFormattings>{}{}", tg.o("extLst"), tg.o("ext"), tg.c("ext"), tg.c("extLst")));
    }
    o.push_str(&tg.c("worksheet"));
    o
}

pub fn sst_xml(sst: &[XText], enc: &XEnc) -> String {
    let tg = Tg { p: if enc.prefix { "x:" } else { "" } };
    let mut o = root_open(&tg, "sst");
    o.truncate(o.len() - 1);
    o.push_str(&format!(" count=\"{}\" uniqueCount=\"{}\">", if enc.sst_count_refs { 1 } else { sst.len() }, sst.len()));
    for t in sst {
        if t.runs.is_empty() { o.push_str(&format!("{}/>", tg.o("si"))); } else { o.push_str(&format!("{}>{}{}", tg.o("si"), runs_xml(&tg, t), tg.c("si"))); }
    }
    o.push_str(&tg.c("sst"));
    o
}

pub fn styles_xml(st: &XStyles, enc: &XEnc) -> String {
    let tg = Tg { p: if enc.prefix { "x:" } else { "" } };
    let mut o = root_open(&tg, "styleSheet");
    if !st.num_fmts.is_empty() {
        o.push_str(&format!("{} count=\"{}\">", tg.o("numFmts"), st.num_fmts.len()));
        for (id, code) in &st.num_fmts {
            if enc.numfmt_code_first { o.push_str(&format!("{} formatCode=\"{}\" numFmtId=\"{}\"/>", tg.o("numFmt"), esc(code), id)); }
            else { o.push_str(&format!("{} numFmtId=\"{}\" formatCode=\"{}\"/>", tg.o("numFmt"), id, esc(code))); }
        }
        o.push_str(&tg.c("numFmts"));
    }
    o.push_str(&format!("{} count=\"1\">{}>{} val=\"11\"/>{}{}", tg.o("fonts"), tg.o("font"), tg.o("sz"), tg.c("font"), tg.c("fonts")));
    o.push_str(&format!("{} count=\"1\">{}>{} patternType=\"none\"/>{}{}", tg.o("fills"), tg.o("fill"), tg.o("patternFill"), tg.c("fill"), tg.c("fills")));
    o.push_str(&format!("{} count=\"1\">{}/>{}", tg.o("borders"), tg.o("border"), tg.c("borders")));
    if !st.cell_style_xfs.is_empty() {
        o.push_str(&format!("{} count=\"{}\">", tg.o("cellStyleXfs"), st.cell_style_xfs.len()));
        for id in &st.cell_style_xfs { o.push_str(&format!("{} numFmtId=\"{}\" fontId=\"0\" fillId=\"0\" borderId=\"0\"/>", tg.o("xf"), id)); }
        o.push_str(&tg.c("cellStyleXfs"));
    }
    o.push_str(&format!("{} count=\"{}\">", tg.o("cellXfs"), st.cell_xfs.len()));
    for id in &st.cell_xfs {
        if *id == 0 && st.omit_general_numfmt { o.push_str(&format!("{} fontId=\"0\" fillId=\"0\" borderId=\"0\" xfId=\"0\" applyFont=\"1\"/>", tg.o("xf"))); continue; }
        let apply = match enc.apply_nf { 0 => " applyNumberFormat=\"1\"", 1 => "", _ => " applyNumberFormat=\"0\"" };
        o.push_str(&format!("{} numFmtId=\"{}\" fontId=\"0\" fillId=\"0\" borderId=\"0\" xfId=\"0\"{apply}/>", tg.o("xf"), id));
    }
    o.push_str(&tg.c("cellXfs"));
    o.push_str(&tg.c("styleSheet"));
    o
}

fn sheet_dir(k: SheetKind) -> &'static str {
    match k { SheetKind::Work => "worksheets", SheetKind::Chart => "chartsheets", SheetKind::Dialog => "dialogsheets", SheetKind::Macro => "macrosheets" }
}
fn sheet_rel_type(k: SheetKind) -> &'static str {
    match k {
        SheetKind::Work => "http://schemas.openxmlformats.org/officeDocument/2006/relationships/worksheet",
        SheetKind::Chart => "http://schemas.openxmlformats.org/officeDocument/2006/relationships/chartsheet",
        SheetKind::Dialog => "http://schemas.openxmlformats.org/officeDocument/2006/relationships/dialogsheet",
        SheetKind::Macro => "http://schemas.microsoft.com/office/2006/relationships/xlMacrosheet",
    }
}

pub fn workbook_xml(b: &XBook, enc: &XEnc) -> String {
    let tg = Tg { p: if enc.prefix { "x:" } else { "" } };
    let mut o = root_open(&tg, "workbook");
    if let Some(d) = b.date1904 { o.push_str(&format!("{} date1904=\"{}\"/>", tg.o("workbookPr"), match (d, enc.bool_words) { (true, false) => "1", (false, false) => "0", (true, true) => "true", (false, true) => "false" })); }
    o.push_str(&format!("{}>", tg.o("sheets")));
    for (i, s) in b.sheets.iter().enumerate() {
        let st = s.state.map(|x| format!(" state=\"{x}\"")).unwrap_or_default();
        let rid = if enc.rid_shuffle { b.sheets.len() - i } else { i + 1 };
        o.push_str(&format!("{} name=\"{}\" sheetId=\"{}\"{} r:id=\"rId{}\"/>", tg.o("sheet"), esc(&s.name), i + 1, st, rid));
    }
    o.push_str(&tg.c("sheets"));
    if !b.defined_names.is_empty() {
        o.push_str(&format!("{}>", tg.o("definedNames")));
        for (ni, (n, v)) in b.defined_names.iter().enumerate() {
            let body = if enc.split_text_nodes && v.chars().count() >= 2 { let k = v.char_indices().nth(v.chars().count() / 2).unwrap().0; format!("{}<!-- c -->{}", esc_text(&v[..k]), esc_text(&v[k..])) } else { esc_text(v) };
            let local = b.defined_name_local_sheet.get(ni).copied().flatten().map(|i| format!(" localSheetId=\"{i}\"")).unwrap_or_default();
            o.push_str(&format!("{} name=\"{}\"{local}>{}{}", tg.o("definedName"), esc(n), body, tg.c("definedName")));
        }
        o.push_str(&tg.c("definedNames"));
    }
    // what Excel 2013+ appends to every workbook part: calcPr and an extension list whose x15 element is called workbookPr again
    if enc.extras {
        o.push_str(&format!("{} calcId=\"191029\"/>", tg.o("calcPr")));
        o.push_str(&format!("{}>{} uri=\"{{140A7094-0E35-4892-8432-C4D2E57EDEB5}}\" xmlns:x15=\"http://schemas.microsoft.com/office/spreadsheetml/2010/11/main\"><x15:workbookPr chartTrackingRefBase=\"1\"/>{}{}", tg.o("extLst"), tg.o("ext"), tg.c("ext"), tg.c("extLst")));
    }
    o.push_str(&tg.c("workbook"));
    o
}

pub fn table_xml(t: &XTable, id: usize) -> String {
    let mut o = format!("<?xml version=\"1.0\" encoding=\"UTF-8\" standalone=\"yes\"?>\n<table xmlns=\"{NS_MAIN}\" id=\"{id}\" name=\"{}\" displayName=\"{}\" ref=\"{}\"", esc(&t.name), esc(&t.display_name), t.rf);
    if let Some(h) = t.header_rows { o.push_str(&format!(" headerRowCount=\"{h}\"")); }
    if let Some(h) = t.totals_rows { o.push_str(&format!(" totalsRowCount=\"{h}\"")); }
    if let Some(h) = t.totals_row_shown { o.push_str(&format!(" totalsRowShown=\"{}\"", h as u8)); }
    o.push('>');
    if t.extras && t.header_rows != Some(0) { o.push_str(&format!("<autoFilter ref=\"{}\"/>", t.rf)); }
    o.push_str(&format!("<tableColumns count=\"{}\">", t.columns.len()));
    for (i, c) in t.columns.iter().enumerate() {
        // column ids are identifiers, not positions: after a column was inserted in the middle they are no longer ascending
        let id = if t.extras && t.columns.len() >= 2 { if i == 1 { t.columns.len() + 3 } else { i + 1 } } else { i + 1 };
        if t.extras && i + 1 == t.columns.len() { o.push_str(&format!("<tableColumn id=\"{}\" name=\"{}\" dataDxfId=\"0\"><calculatedColumnFormula>1+1</calculatedColumnFormula></tableColumn>", id, esc(c))); }
        else { o.push_str(&format!("<tableColumn id=\"{}\" name=\"{}\"/>", id, esc(c))); }
    }
    o.push_str("</tableColumns>");
    if t.extras { o.push_str("<tableStyleInfo name=\"TableStyleMedium2\" showFirstColumn=\"0\" showLastColumn=\"0\" showRowStripes=\"1\" showColumnStripes=\"0\"/><extLst><ext uri=\"{504A1905-F514-4f6f-8877-14C23A59335A}\" xmlns:x14=\"http://schemas.microsoft.com/office/spreadsheetml/2009/9/main\"><x14:table altText=\"alt\" altTextSummary=\"summary &amp; more\"/></ext></extLst>"); }
    o.push_str("</table>");
    o
}

/// All parts of the package, in archive order.
pub fn parts(b: &XBook, enc: &XEnc) -> Vec<(String, Vec<u8>)> {
    let mut head: Vec<(String, String)> = vec![];
    let mut tail: Vec<(String, String)> = vec![];
    let mut ct = String::from("<?xml version=\"1.0\" encoding=\"UTF-8\" standalone=\"yes\"?>\n<Types xmlns=\"http://schemas.openxmlformats.org/package/2006/content-types\"><Default Extension=\"rels\" ContentType=\"application/vnd.openxmlformats-package.relationships+xml\"/><Default Extension=\"xml\" ContentType=\"application/xml\"/><Default Extension=\"bin\" ContentType=\"application/vnd.ms-office.vbaProject\"/><Override PartName=\"/xl/workbook.xml\" ContentType=\"application/vnd.openxmlformats-officedocument.spreadsheetml.sheet.main+xml\"/>");
    let mut rels = format!("<?xml version=\"1.0\" encoding=\"UTF-8\" standalone=\"yes\"?>\n<Relationships xmlns=\"{NS_PKG_REL}\">");
    let mut table_no = 0usize;
    let mut sheet_parts = vec![];
    let mut sheet_rels: Vec<String> = vec![];
    for (i, s) in b.sheets.iter().enumerate() {
        // sheet parts may live in a sub-folder of their usual folder (part names are free)
        let dir_owned = if enc.sheet_subfolder { format!("{}/data", sheet_dir(s.kind)) } else { sheet_dir(s.kind).to_string() };
        let dir = dir_owned.as_str();
        let target = match enc.target { TargetMode::Relative => format!("{dir}/sheet{}.xml", i + 1), TargetMode::AbsoluteXl => format!("/xl/{dir}/sheet{}.xml", i + 1) };
        let rid = if enc.rid_shuffle { b.sheets.len() - i } else { i + 1 };
        let rel = format!("<Relationship Id=\"rId{}\" Type=\"{}\" Target=\"{}\"/>", rid, sheet_rel_type(s.kind), target);
        if enc.rid_shuffle { sheet_rels.insert(0, rel); } else { sheet_rels.push(rel); }
        ct.push_str(&format!("<Override PartName=\"/xl/{dir}/sheet{}.xml\" ContentType=\"application/vnd.openxmlformats-officedocument.spreadsheetml.worksheet+xml\"/>", i + 1));
        let mut rids = vec![];
        if !s.tables.is_empty() {
            let mut srel = format!("<?xml version=\"1.0\" encoding=\"UTF-8\" standalone=\"yes\"?>\n<Relationships xmlns=\"{NS_PKG_REL}\">");
            for t in &s.tables {
                table_no += 1;
                let rid = format!("rId{}", rids.len() + 1);
                // part names are free (OPC): Excel uses xl/tables/tableN.xml, other writers their own folder and file names
                let part = if enc.odd_table_part_names { format!("tbl/t{table_no}.xml") } else { format!("tables/table{table_no}.xml") };
                // relative to the sheet part's folder, or (what some writers always do) an absolute part name
                let target = if enc.target == TargetMode::AbsoluteXl { format!("/xl/{part}") } else { format!("{}../{part}", if enc.sheet_subfolder { "../" } else { "" }) };
                srel.push_str(&format!("<Relationship Id=\"{rid}\" Type=\"http://schemas.openxmlformats.org/officeDocument/2006/relationships/table\" Target=\"{target}\"/>"));
                tail.push((format!("xl/{part}"), table_xml(t, table_no)));
                rids.push(rid);
            }
            // a sheet with an XML-mapped cell carries a relationship whose type starts like the table type: tableSingleCells
            if enc.extras {
                srel.push_str(&format!("<Relationship Id=\"rId{}\" Type=\"http://schemas.openxmlformats.org/officeDocument/2006/relationships/tableSingleCells\" Target=\"{}../tables/tableSingleCells{}.xml\"/>", rids.len() + 1, if enc.sheet_subfolder { "../" } else { "" }, i + 1));
                tail.push((format!("xl/tables/tableSingleCells{}.xml", i + 1), format!("<?xml version=\"1.0\" encoding=\"UTF-8\" standalone=\"yes\"?>\n<singleXmlCells xmlns=\"{NS_MAIN}\"><singleXmlCell id=\"9\" r=\"A1\" connectionId=\"0\"><xmlCellPr id=\"1\" uniqueName=\"n\"><xmlPr mapId=\"1\" xpath=\"/r/n\" xmlDataType=\"string\"/></xmlCellPr></singleXmlCell></singleXmlCells>")));
            }
            srel.push_str("</Relationships>");
            tail.push((format!("xl/{dir}/_rels/sheet{}.xml.rels", i + 1), srel));
        }
        sheet_parts.push((format!("xl/{dir}/sheet{}.xml", i + 1), sheet_xml(s, enc, &rids)));
    }
    for r in &sheet_rels { rels.push_str(r); }
    let n = b.sheets.len();
    let mut aux: Vec<(String, String)> = vec![];
    if !b.sst.is_empty() {
        rels.push_str(&format!("<Relationship Id=\"rId{}\" Type=\"http://schemas.openxmlformats.org/officeDocument/2006/relationships/sharedStrings\" Target=\"sharedStrings.xml\"/>", n + 1));
        aux.push(("xl/sharedStrings.xml".into(), sst_xml(&b.sst, enc)));
    }
    if let Some(st) = &b.styles {
        rels.push_str(&format!("<Relationship Id=\"rId{}\" Type=\"http://schemas.openxmlformats.org/officeDocument/2006/relationships/styles\" Target=\"styles.xml\"/>", n + 2));
        aux.push(("xl/styles.xml".into(), styles_xml(st, enc)));
    }
    if b.vba.is_some() {
        rels.push_str(&format!("<Relationship Id=\"rId{}\" Type=\"http://schemas.microsoft.com/office/2006/relationships/vbaProject\" Target=\"vbaProject.bin\"/>", n + 3));
    }
    rels.push_str("</Relationships>");
    ct.push_str("</Types>");
    head.push(("[Content_Types].xml".into(), ct));
    head.push(("_rels/.rels".into(), format!("<?xml version=\"1.0\" encoding=\"UTF-8\" standalone=\"yes\"?>\n<Relationships xmlns=\"{NS_PKG_REL}\"><Relationship Id=\"rId1\" Type=\"http://schemas.openxmlformats.org/officeDocument/2006/relationships/officeDocument\" Target=\"xl/workbook.xml\"/></Relationships>")));
    head.push(("xl/workbook.xml".into(), workbook_xml(b, enc)));
    head.push(("xl/_rels/workbook.xml.rels".into(), rels));
    let mut all: Vec<(String, Vec<u8>)> = vec![];
    let reorder_rels = |name: &str, x: String| -> String {
        if !enc.rels_target_first || !name.ends_with(".rels") { return x; }
        let mut out = String::new();
        let mut rest = x.as_str();
        while let Some(p) = rest.find("<Relationship Id=") {
            out.push_str(&rest[..p]);
            let e = p + rest[p..].find("/>").unwrap() + 2;
            let el = &rest[p..e];
            let (ty, ta) = (el.find(" Type=\"").unwrap(), el.find(" Target=\"").unwrap());
            out.push_str(&format!("{}{}{}/>", &el[..ty], &el[ta..el.len() - 2], &el[ty..ta]));
            rest = &rest[e..];
        }
        out.push_str(rest);
        out
    };
    let to_b = |v: Vec<(String, String)>| v.into_iter().map(|(a, b)| { let b = reorder_rels(&a, b); let b = if enc.lean_markup && a.ends_with(".rels") { b.replace("\"/>", "\"></Relationship>") } else { b }; let b = if enc.comments { comment_xml(&b) } else { b }; (a, if enc.indent { if enc.crlf { indent_xml_crlf(&b) } else { indent_xml(&b) } } else { b }.into_bytes()) }).collect::<Vec<_>>();
    all.extend(to_b(head));
    if enc.reorder_members {
        all.extend(to_b(sheet_parts));
        all.extend(to_b(aux));
    } else {
        all.extend(to_b(aux));
        all.extend(to_b(sheet_parts));
    }
    all.extend(to_b(tail));
    if let Some(v) = &b.vba { all.push(("xl/vbaProject.bin".into(), v.clone())); }
    if enc.upper_parts {
        // OPC part names are compared case-insensitively (ASCII): change the case of the xl/ parts
        for (n, _) in all.iter_mut() {
            if n.starts_with("xl/") && !n.contains("_rels") { *n = format!("xl/{}", n[3..].to_ascii_uppercase()); }
        }
    }
    if enc.upper_root { for (n, _) in all.iter_mut() { if n.starts_with("xl/") { *n = format!("XL/{}", &n[3..]); } } }
    all
}

/// White space between adjacent tags only (`</a><b>`, `<a><b>`, `<a/><b>`, `</a></b>`), so no text node of the document changes.
pub fn indent_xml(x: &str) -> String { between_tags(x, false) }
/// `indent_xml` with CR LF line ends in the inserted white space
pub fn indent_xml_crlf(x: &str) -> String { CRLF.with(|c| c.set(true)); let r = between_tags(x, false); CRLF.with(|c| c.set(false)); r }
thread_local! { static CRLF: std::cell::Cell<bool> = const { std::cell::Cell::new(false) }; }
/// `<!--c-->` between adjacent tags instead of white space
pub fn comment_xml(x: &str) -> String { between_tags(x, true) }
fn between_tags(x: &str, comments: bool) -> String {
    let b = x.as_bytes();
    let mut out = String::with_capacity(x.len() * 2);
    let mut depth = 0usize;
    let mut prev_open = false; // the previous token was an opening tag
    let mut text_before = false; // the previous token was text (incl. CDATA)
    let mut mixed = false; // text seen inside the element being written: nothing is inserted until it closes
    let mut i = 0;
    while i < b.len() {
        if x[i..].starts_with("<![CDATA[") {
            // a CDATA section is text
            let end = i + x[i..].find("]]>").unwrap() + 3;
            out.push_str(&x[i..end]); prev_open = false; text_before = true; mixed = true; i = end;
        } else if b[i] == b'<' {
            let end = i + b[i..].iter().position(|c| *c == b'>').unwrap();
            let tag = &x[i..=end];
            let closing = tag.starts_with("</");
            let selfc = tag.ends_with("/>") || tag.starts_with("<?") || tag.starts_with("<!--");
            if closing { depth = depth.saturating_sub(1); }
            let after_text = std::mem::replace(&mut text_before, false) || mixed;
            if closing { mixed = false; }
            if i > 0 && b[i - 1] == b'>' && !after_text && !(closing && prev_open) && !x[..i].ends_with("?>\n") { if comments { out.push_str("<!--c-->"); } else { if CRLF.with(|c| c.get()) { out.push('\r'); } out.push('\n'); for _ in 0..depth { out.push_str("  "); } } }
            out.push_str(tag);
            prev_open = !closing && !selfc;
            if prev_open { depth += 1; }
            i = end + 1;
        } else { let n = b[i..].iter().position(|c| *c == b'<').unwrap_or(b.len() - i); out.push_str(&x[i..i + n]); prev_open = false; text_before = true; mixed = true; i += n; }
    }
    out
}

pub fn write(b: &XBook, enc: &XEnc) -> Vec<u8> {
    let mut z = ZipW::new();
    for (n, d) in parts(b, enc) { z.add(&n, &d, enc.method); }
    z.finish()
}
