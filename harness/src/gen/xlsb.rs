//! XLSB (MS-XLSB, BIFF12) writer.
use super::xlsx::{NS_PKG_REL};
use super::zipw::{Method, ZipW};

pub fn rid(t: u16) -> Vec<u8> {
    if t < 0x80 { vec![t as u8] } else { vec![(t & 0x7F) as u8 | 0x80, (t >> 7) as u8] }
}
pub fn rlen(mut n: usize) -> Vec<u8> {
    let mut o = vec![];
    loop {
        let b = (n & 0x7F) as u8;
        n >>= 7;
        if n > 0 { o.push(b | 0x80); } else { o.push(b); return o; }
    }
}
pub fn rec(t: u16, d: &[u8]) -> Vec<u8> {
    let mut v = rid(t);
    v.extend(rlen(d.len()));
    v.extend_from_slice(d);
    v
}
/// XLWideString
pub fn ws(s: &str) -> Vec<u8> {
    let u: Vec<u16> = s.encode_utf16().collect();
    let mut v = (u.len() as u32).to_le_bytes().to_vec();
    for c in u { v.extend(c.to_le_bytes()); }
    v
}
pub fn cell_hdr(col: u32, style: u32) -> Vec<u8> {
    let mut v = col.to_le_bytes().to_vec();
    v.extend((style & 0x00FF_FFFF).to_le_bytes());
    v
}
/// formula tail of BrtFmla* records: grbitFlags(2) cce(4) rgce cb(4)
pub fn fmla(rgce: &[u8]) -> Vec<u8> {
    let mut v = 0u16.to_le_bytes().to_vec();
    v.extend((rgce.len() as u32).to_le_bytes());
    v.extend_from_slice(rgce);
    v.extend(0u32.to_le_bytes());
    v
}

#[derive(Clone, Debug, PartialEq)]
pub enum BVal {
    Blank,
    Rk(u32),
    Real(f64),
    Bool(bool),
    Err(u8),
    St(String),
    Isst(u32),
    FmlaNum(f64, Vec<u8>),
    FmlaStr(String, Vec<u8>),
    FmlaBool(bool, Vec<u8>),
    FmlaErr(u8, Vec<u8>),
}

#[derive(Clone, Debug, PartialEq)]
pub enum BItem {
    Cell { row: u32, col: u32, style: u32, val: BVal },
    /// verbatim ignorable record placed at this point of the stream (type, payload)
    Raw(u16, Vec<u8>),
}

pub fn cell_record(col: u32, style: u32, v: &BVal) -> Vec<u8> {
    let mut d = cell_hdr(col, style);
    match v {
        BVal::Blank => rec(0x01, &d),
        BVal::Rk(w) => { d.extend(w.to_le_bytes()); rec(0x02, &d) }
        BVal::Err(e) => { d.push(*e); rec(0x03, &d) }
        BVal::Bool(b) => { d.push(*b as u8); rec(0x04, &d) }
        BVal::Real(x) => { d.extend(x.to_le_bytes()); rec(0x05, &d) }
        BVal::St(s) => { d.extend(ws(s)); rec(0x06, &d) }
        BVal::Isst(i) => { d.extend(i.to_le_bytes()); rec(0x07, &d) }
        BVal::FmlaStr(s, f) => { d.extend(ws(s)); d.extend(fmla(f)); rec(0x08, &d) }
        BVal::FmlaNum(x, f) => { d.extend(x.to_le_bytes()); d.extend(fmla(f)); rec(0x09, &d) }
        BVal::FmlaBool(b, f) => { d.push(*b as u8); d.extend(fmla(f)); rec(0x0A, &d) }
        BVal::FmlaErr(e, f) => { d.push(*e); d.extend(fmla(f)); rec(0x0B, &d) }
    }
}

#[derive(Clone, Debug)]
pub struct BSheet {
    pub name: String,
    /// 0 visible, 1 hidden, 2 very hidden
    pub state: u32,
    /// "worksheets" | "chartsheets" | "dialogsheets" | "macrosheets"
    pub dir: &'static str,
    /// items in stream order; a BrtRowHdr is emitted whenever the row changes
    pub items: Vec<BItem>,
    /// emit the optional blocks before BrtBeginSheetData (views, fmt info, col infos)
    pub preamble: bool,
    /// the byte after the 24-bit iStyleRef of every Cell structure: bit 0 fPhShow (show phonetic), 7 reserved bits
    pub cell_flags: u8,
    /// BrtWsDim names only the first used row and two columns (advisory, out of date) instead of the used range
    pub stale_dim: bool,
    /// bulk inside the skipped begin..end blocks before the sheet data, so that their records cross the reader's 8 KiB buffer
    /// refills: 0 none, 1 a selection of 600 areas, 2 a selection of 1000 areas, 3 a column-info block of 410 entries
    pub preamble_bulk: u8,
}
impl BSheet {
    pub fn new(name: &str, items: Vec<BItem>) -> BSheet { BSheet { name: name.into(), state: 0, dir: "worksheets", items, preamble: true, cell_flags: 0, stale_dim: false, preamble_bulk: 0 } }
}

#[derive(Clone, Debug, Default)]
pub struct BBook {
    pub sheets: Vec<BSheet>,
    pub sst: Vec<String>,
    /// per shared string: (number of formatting runs, phonetic text) — rich/phonetic data the reader must skip
    pub sst_extra: Vec<(usize, Option<String>)>,
    /// custom formats (ifmt, code)
    pub fmts: Vec<(u16, String)>,
    /// ifmt of each cell XF
    pub xfs: Vec<u16>,
    pub date1904: bool,
    /// XTI entries: (first sheet, last sheet) of this workbook
    pub extern_sheets: Option<Vec<(i32, i32)>>,
    pub names: Vec<(String, Vec<u8>)>,
    pub vba: Option<Vec<u8>>,
    /// cstTotal of BrtBeginSst (number of references to strings in the workbook); None = equal to the number of items
    pub sst_total_refs: Option<u32>,
    /// relationship ids with a non-ASCII letter (an xsd:ID may contain any letter) instead of rIdN
    pub rel_ids_non_ascii: bool,
    /// a supporting link to an external workbook (BrtSupBookSrc) recorded before BrtSupSelf: the XTI entries of this workbook's
    /// own sheets then carry supporting-link index 1
    pub external_link_first: bool,
    /// write the Relationship elements of workbook.bin.rels as start tag + end tag instead of empty-element tags
    pub rels_end_tags: bool,
}

pub fn row_hdr(row: u32) -> Vec<u8> {
    let mut d = row.to_le_bytes().to_vec();
    d.extend(0u32.to_le_bytes()); // ixfe
    d.extend(300u16.to_le_bytes()); // miyRw
    d.extend([0u8; 3]); // flags
    d.extend(0u32.to_le_bytes()); // ccolspan
    rec(0x00, &d)
}

pub fn sheet_bin(s: &BSheet) -> Vec<u8> {
    if s.dir == "chartsheets" {
        // MS-XLSB 2.1.7.7 chart sheet part: BrtBeginSheet [BrtCsProp] CSVIEWS [BrtDrawing] BrtEndSheet - no dimension, no sheet data
        let mut o = rec(0x81, &[]);
        o.extend(rec(0x28C, &[0u8; 7])); // BrtCsProp: flags(2) + BrtColor(8)? kept short: readers skip it by its length
        o.extend(rec(0x8D, &[])); // BrtBeginCsViews
        o.extend(rec(0x8B, &[0u8; 12])); // BrtBeginCsView
        o.extend(rec(0x8C, &[])); // BrtEndCsView
        o.extend(rec(0x8E, &[])); // BrtEndCsViews
        o.extend(rec(0x82, &[])); // BrtEndSheet
        return o;
    }
    let mut o = rec(0x81, &[]);
    if s.preamble { let mut d = vec![0xC9, 0x04, 0x02]; d.extend([0u8; 20]); o.extend(rec(0x93, &d[..23])); }
    let cells: Vec<(u32, u32)> = s.items.iter().filter_map(|i| if let BItem::Cell { row, col, .. } = i { Some((*row, *col)) } else { None }).collect();
    let (r0, r1) = (cells.iter().map(|c| c.0).min().unwrap_or(0), cells.iter().map(|c| c.0).max().unwrap_or(0));
    let (c0, c1) = (cells.iter().map(|c| c.1).min().unwrap_or(0), cells.iter().map(|c| c.1).max().unwrap_or(0));
    let (r1, c1) = if s.stale_dim { (r0, (c0 + 1).min(16383)) } else { (r1, c1) };
    let mut d = vec![]; d.extend(r0.to_le_bytes()); d.extend(r1.to_le_bytes()); d.extend(c0.to_le_bytes()); d.extend(c1.to_le_bytes());
    o.extend(rec(0x94, &d));
    if s.preamble {
        o.extend(rec(0x85, &[])); // BrtBeginWsViews
        o.extend(rec(0x89, &[0u8; 30])); // BrtBeginWsView
        if s.preamble_bulk == 1 || s.preamble_bulk == 2 {
            // BrtSel: pnn, rwAct, colAct, dwRfxAct, then crfx areas of 16 bytes
            let n: u32 = if s.preamble_bulk == 1 { 600 } else { 1000 };
            let mut d = vec![]; d.extend(3u32.to_le_bytes()); d.extend(0u32.to_le_bytes()); d.extend(0u32.to_le_bytes()); d.extend(0u32.to_le_bytes()); d.extend(n.to_le_bytes());
            for k in 0..n { d.extend((2 * k).to_le_bytes()); d.extend((2 * k).to_le_bytes()); d.extend(1u32.to_le_bytes()); d.extend(2u32.to_le_bytes()); }
            o.extend(rec(0x98, &d));
        }
        o.extend(rec(0x8A, &[])); // BrtEndWsView
        o.extend(rec(0x86, &[])); // BrtEndWsViews
        o.extend(rec(0x1E5, &[0xFF, 0xFF, 0xFF, 0xFF, 0x08, 0x00, 0x2C, 0x01, 0x00, 0x00, 0x00, 0x00])); // BrtWsFmtInfo
        if s.preamble_bulk == 3 {
            o.extend(rec(0x186, &[])); // BrtBeginColInfos
            for k in 0..410u32 { let mut d = vec![]; d.extend(k.to_le_bytes()); d.extend(k.to_le_bytes()); d.extend(2304u32.to_le_bytes()); d.extend(0u32.to_le_bytes()); d.extend(2u16.to_le_bytes()); o.extend(rec(0x3C, &d)); }
            o.extend(rec(0x187, &[])); // BrtEndColInfos
        }
    }
    o.extend(rec(0x91, &[]));
    let mut cur: Option<u32> = None;
    for it in &s.items {
        match it {
            BItem::Cell { row, col, style, val } => {
                if cur != Some(*row) { o.extend(row_hdr(*row)); cur = Some(*row); }
                let mut r = cell_record(*col, *style, val);
                if s.cell_flags != 0 {
                    // the Cell structure starts right after the record id and length prefix (1-2 + 1-4 bytes)
                    let idl = if r[0] & 0x80 != 0 { 2 } else { 1 };
                    let mut k = idl; while r[k] & 0x80 != 0 { k += 1; } k += 1;
                    r[k + 7] = s.cell_flags;
                }
                o.extend(r);
            }
            BItem::Raw(t, d) => o.extend(rec(*t, d)),
        }
    }
    o.extend(rec(0x92, &[]));
    o.extend(rec(0x82, &[]));
    o
}

/// relationship id of the n-th sheet (1-based): `rIdN`, or with U+0131 / U+00E9 in it (the former's low byte is '1')
fn rel_id(b: &BBook, n: usize) -> String { if b.rel_ids_non_ascii { format!("r\u{e9}l\u{131}{n}") } else { format!("rId{n}") } }

pub fn workbook_bin(b: &BBook) -> Vec<u8> {
    let mut o = rec(0x83, &[]);
    let mut d = (b.date1904 as u32).to_le_bytes().to_vec(); d.extend(0u32.to_le_bytes()); d.extend(ws(""));
    o.extend(rec(0x99, &d));
    o.extend(rec(0x8F, &[]));
    for (i, s) in b.sheets.iter().enumerate() {
        let mut d = s.state.to_le_bytes().to_vec(); d.extend((i as u32 + 1).to_le_bytes()); d.extend(ws(&rel_id(b, i + 1))); d.extend(ws(&s.name));
        o.extend(rec(0x9C, &d));
    }
    o.extend(rec(0x90, &[]));
    if let Some(x) = &b.extern_sheets {
        o.extend(rec(0x161, &[]));
        if b.external_link_first { o.extend(rec(0x163, &ws("rIdExt1"))); } // BrtSupBookSrc
        o.extend(rec(0x165, &[]));
        let own: u32 = if b.external_link_first { 1 } else { 0 };
        let mut d = (x.len() as u32).to_le_bytes().to_vec();
        for (a, z) in x { d.extend(own.to_le_bytes()); d.extend(a.to_le_bytes()); d.extend(z.to_le_bytes()); }
        o.extend(rec(0x16A, &d));
        o.extend(rec(0x162, &[]));
    }
    for (n, rgce) in &b.names {
        let mut d = 0u32.to_le_bytes().to_vec(); d.push(0); d.extend(0xFFFF_FFFFu32.to_le_bytes());
        d.extend(ws(n)); d.extend((rgce.len() as u32).to_le_bytes()); d.extend(rgce); d.extend(0u32.to_le_bytes()); d.extend(0xFFFF_FFFFu32.to_le_bytes());
        o.extend(rec(0x27, &d));
    }
    o.extend(rec(0x9D, &[0x00, 0x00, 0x01, 0x00, 0x00, 0x00, 0x64, 0x00, 0x00, 0x00, 0xFC, 0xA9, 0xF1, 0xD2, 0x4D, 0x62, 0x50, 0x3F, 0x01, 0x00, 0x00, 0x00, 0x6A, 0x00])); // BrtCalcProp
    o.extend(rec(0x84, &[]));
    o
}

pub fn styles_bin(b: &BBook) -> Vec<u8> {
    let mut o = rec(0x116, &[]);
    if !b.fmts.is_empty() {
        o.extend(rec(0x267, &(b.fmts.len() as u32).to_le_bytes()));
        for (id, code) in &b.fmts { let mut d = id.to_le_bytes().to_vec(); d.extend(ws(code)); o.extend(rec(0x2C, &d)); }
        o.extend(rec(0x268, &[]));
    }
    let xfs: Vec<u16> = if b.xfs.is_empty() { vec![0] } else { b.xfs.clone() };
    o.extend(rec(0x269, &(xfs.len() as u32).to_le_bytes()));
    for ifmt in xfs { let mut d = 0u16.to_le_bytes().to_vec(); d.extend(ifmt.to_le_bytes()); d.extend([0u8; 12]); o.extend(rec(0x2F, &d)); }
    o.extend(rec(0x26A, &[]));
    o.extend(rec(0x117, &[]));
    o
}

pub fn sst_bin(b: &BBook) -> Vec<u8> {
    let mut d = b.sst_total_refs.unwrap_or(b.sst.len() as u32).to_le_bytes().to_vec(); d.extend((b.sst.len() as u32).to_le_bytes());
    let mut o = rec(0x9F, &d);
    for (i, s) in b.sst.iter().enumerate() {
        let (runs, ph) = b.sst_extra.get(i).cloned().unwrap_or((0, None));
        let mut d = vec![(runs > 0) as u8 | ((ph.is_some() as u8) << 1)];
        d.extend(ws(s));
        if runs > 0 {
            d.extend((runs as u32).to_le_bytes());
            for r in 0..runs { d.extend((r as u16).to_le_bytes()); d.extend(1u16.to_le_bytes()); }
        }
        if let Some(p) = &ph {
            d.extend(ws(p));
            d.extend(1u32.to_le_bytes());
            d.extend([0u8, 0, 0, 0, 1, 0]);
        }
        o.extend(rec(0x13, &d));
    }
    o.extend(rec(0xA0, &[]));
    o
}

pub fn write(b: &BBook, method: Method) -> Vec<u8> {
    let mut z = ZipW::new();
    z.add("[Content_Types].xml", b"<?xml version=\"1.0\" encoding=\"UTF-8\" standalone=\"yes\"?>\n<Types xmlns=\"http://schemas.openxmlformats.org/package/2006/content-types\"><Default Extension=\"bin\" ContentType=\"application/vnd.ms-excel.sheet.binary.macroEnabled.main\"/><Default Extension=\"rels\" ContentType=\"application/vnd.openxmlformats-package.relationships+xml\"/></Types>", method);
    z.add("_rels/.rels", format!("<?xml version=\"1.0\" encoding=\"UTF-8\" standalone=\"yes\"?>\n<Relationships xmlns=\"{NS_PKG_REL}\"><Relationship Id=\"rId1\" Type=\"http://schemas.openxmlformats.org/officeDocument/2006/relationships/officeDocument\" Target=\"xl/workbook.bin\"/></Relationships>").as_bytes(), method);
    z.add("xl/workbook.bin", &workbook_bin(b), method);
    let mut rels = format!("<?xml version=\"1.0\" encoding=\"UTF-8\" standalone=\"yes\"?>\n<Relationships xmlns=\"{NS_PKG_REL}\">");
    for (i, s) in b.sheets.iter().enumerate() {
        let ty = match s.dir { "chartsheets" => "chartsheet", "dialogsheets" => "dialogsheet", "macrosheets" => "xlMacrosheet", _ => "worksheet" };
        rels.push_str(&format!("<Relationship Id=\"{}\" Type=\"http://schemas.openxmlformats.org/officeDocument/2006/relationships/{ty}\" Target=\"{}/sheet{}.bin\"/>", rel_id(b, i + 1), s.dir, i + 1));
    }
    rels.push_str(&format!("<Relationship Id=\"rId{}\" Type=\"http://schemas.openxmlformats.org/officeDocument/2006/relationships/styles\" Target=\"styles.bin\"/>", b.sheets.len() + 1));
    rels.push_str(&format!("<Relationship Id=\"rId{}\" Type=\"http://schemas.openxmlformats.org/officeDocument/2006/relationships/sharedStrings\" Target=\"sharedStrings.bin\"/>", b.sheets.len() + 2));
    if b.external_link_first && b.extern_sheets.is_some() {
        rels.push_str("<Relationship Id=\"rIdExt1\" Type=\"http://schemas.openxmlformats.org/officeDocument/2006/relationships/externalLink\" Target=\"externalLinks/externalLink1.bin\"/>");
        // BrtBeginSupBook (external workbook, relationship rId1 of the link part) ... BrtEndSupBook
        let mut p = rec(0x168, &{ let mut d = 0u16.to_le_bytes().to_vec(); d.extend(ws("rId1")); d.extend(ws("")); d });
        p.extend(rec(0x169, &[]));
        z.add("xl/externalLinks/externalLink1.bin", &p, method);
        z.add("xl/externalLinks/_rels/externalLink1.bin.rels", format!("<?xml version=\"1.0\" encoding=\"UTF-8\" standalone=\"yes\"?>\n<Relationships xmlns=\"{NS_PKG_REL}\"><Relationship Id=\"rId1\" Type=\"http://schemas.openxmlformats.org/officeDocument/2006/relationships/externalLinkPath\" Target=\"other.xlsb\" TargetMode=\"External\"/></Relationships>").as_bytes(), method);
    }
    rels.push_str("</Relationships>");
    if b.rels_end_tags { rels = rels.replace("\"/>", "\"></Relationship>"); }
    z.add("xl/_rels/workbook.bin.rels", rels.as_bytes(), method);
    z.add("xl/styles.bin", &styles_bin(b), method);
    if !b.sst.is_empty() { z.add("xl/sharedStrings.bin", &sst_bin(b), method); }
    for (i, s) in b.sheets.iter().enumerate() { z.add(&format!("xl/{}/sheet{}.bin", s.dir, i + 1), &sheet_bin(s), method); }
    if let Some(v) = &b.vba { z.add("xl/vbaProject.bin", v, method); }
    z.finish()
}
