//! Minimal ZIP writer (APPNOTE 6.3.x): stored or deflated members, no data descriptors, no zip64.
use miniz_oxide::deflate::compress_to_vec;

#[derive(Clone, Copy, PartialEq, Debug)]
pub enum Method {
    Stored,
    Deflated,
}

pub struct ZipW {
    out: Vec<u8>,
    central: Vec<u8>,
    count: u16,
}

impl Default for ZipW {
    fn default() -> Self {
        Self::new()
    }
}

impl ZipW {
    pub fn new() -> Self {
        ZipW { out: Vec::new(), central: Vec::new(), count: 0 }
    }
    pub fn add(&mut self, name: &str, data: &[u8], method: Method) {
        let crc = crc32fast::hash(data);
        let (m, payload): (u16, Vec<u8>) = match method {
            Method::Stored => (0, data.to_vec()),
            Method::Deflated => (8, compress_to_vec(data, 1)),
        };
        let offset = self.out.len() as u32;
        let nb = name.as_bytes();
        let mut h = Vec::with_capacity(30 + nb.len());
        h.extend_from_slice(&0x04034b50u32.to_le_bytes());
        h.extend_from_slice(&20u16.to_le_bytes()); // version needed
        h.extend_from_slice(&0x0800u16.to_le_bytes()); // flags: UTF-8 names
        h.extend_from_slice(&m.to_le_bytes());
        h.extend_from_slice(&0u16.to_le_bytes()); // time
        h.extend_from_slice(&0x0021u16.to_le_bytes()); // date 1980-01-01
        h.extend_from_slice(&crc.to_le_bytes());
        h.extend_from_slice(&(payload.len() as u32).to_le_bytes());
        h.extend_from_slice(&(data.len() as u32).to_le_bytes());
        h.extend_from_slice(&(nb.len() as u16).to_le_bytes());
        h.extend_from_slice(&0u16.to_le_bytes());
        h.extend_from_slice(nb);
        self.out.extend_from_slice(&h);
        self.out.extend_from_slice(&payload);
        let c = &mut self.central;
        c.extend_from_slice(&0x02014b50u32.to_le_bytes());
        c.extend_from_slice(&20u16.to_le_bytes()); // made by
        c.extend_from_slice(&20u16.to_le_bytes()); // needed
        c.extend_from_slice(&0x0800u16.to_le_bytes());
        c.extend_from_slice(&m.to_le_bytes());
        c.extend_from_slice(&0u16.to_le_bytes());
        c.extend_from_slice(&0x0021u16.to_le_bytes());
        c.extend_from_slice(&crc.to_le_bytes());
        c.extend_from_slice(&(payload.len() as u32).to_le_bytes());
        c.extend_from_slice(&(data.len() as u32).to_le_bytes());
        c.extend_from_slice(&(nb.len() as u16).to_le_bytes());
        c.extend_from_slice(&0u16.to_le_bytes()); // extra
        c.extend_from_slice(&0u16.to_le_bytes()); // comment
        c.extend_from_slice(&0u16.to_le_bytes()); // disk
        c.extend_from_slice(&0u16.to_le_bytes()); // internal attrs
        c.extend_from_slice(&0u32.to_le_bytes()); // external attrs
        c.extend_from_slice(&offset.to_le_bytes());
        c.extend_from_slice(nb);
        self.count += 1;
    }
    pub fn finish(mut self) -> Vec<u8> {
        let cd_off = self.out.len() as u32;
        let cd_len = self.central.len() as u32;
        self.out.extend_from_slice(&self.central);
        self.out.extend_from_slice(&0x06054b50u32.to_le_bytes());
        self.out.extend_from_slice(&0u16.to_le_bytes());
        self.out.extend_from_slice(&0u16.to_le_bytes());
        self.out.extend_from_slice(&self.count.to_le_bytes());
        self.out.extend_from_slice(&self.count.to_le_bytes());
        self.out.extend_from_slice(&cd_len.to_le_bytes());
        self.out.extend_from_slice(&cd_off.to_le_bytes());
        self.out.extend_from_slice(&0u16.to_le_bytes());
        self.out
    }
}

/// Convenience: build an archive from (name, bytes) with one method for all members.
pub fn zip_all(parts: &[(String, Vec<u8>)], method: Method) -> Vec<u8> {
    let mut z = ZipW::new();
    for (n, d) in parts {
        z.add(n, d, method);
    }
    z.finish()
}

/// Read back an archive written by `ZipW` (central directory walk; stored / deflated members).
pub fn unzip(bytes: &[u8]) -> Vec<(String, Vec<u8>, Method)> {
    let mut out = vec![];
    // EOCD at the very end (no comment)
    let e = bytes.len() - 22;
    let n = u16::from_le_bytes([bytes[e + 10], bytes[e + 11]]) as usize;
    let mut p = u32::from_le_bytes(bytes[e + 16..e + 20].try_into().unwrap()) as usize;
    for _ in 0..n {
        let m = u16::from_le_bytes([bytes[p + 10], bytes[p + 11]]);
        let csize = u32::from_le_bytes(bytes[p + 20..p + 24].try_into().unwrap()) as usize;
        let nl = u16::from_le_bytes([bytes[p + 28], bytes[p + 29]]) as usize;
        let xl = u16::from_le_bytes([bytes[p + 30], bytes[p + 31]]) as usize;
        let cl = u16::from_le_bytes([bytes[p + 32], bytes[p + 33]]) as usize;
        let off = u32::from_le_bytes(bytes[p + 42..p + 46].try_into().unwrap()) as usize;
        let name = String::from_utf8_lossy(&bytes[p + 46..p + 46 + nl]).to_string();
        let lnl = u16::from_le_bytes([bytes[off + 26], bytes[off + 27]]) as usize;
        let lxl = u16::from_le_bytes([bytes[off + 28], bytes[off + 29]]) as usize;
        let data = &bytes[off + 30 + lnl + lxl..off + 30 + lnl + lxl + csize];
        let (d, method) = if m == 8 { (miniz_oxide::inflate::decompress_to_vec(data).expect("inflate"), Method::Deflated) } else { (data.to_vec(), Method::Stored) };
        out.push((name, d, method));
        p += 46 + nl + xl + cl;
    }
    out
}

pub fn rezip(parts: &[(String, Vec<u8>, Method)]) -> Vec<u8> {
    let mut z = ZipW::new();
    for (n, d, m) in parts {
        z.add(n, d, *m);
    }
    z.finish()
}
