//! BIFF8 (MS-XLS) Workbook stream writer.
use crate::engine::choice::Chooser;

pub fn rec(t: u16, d: &[u8]) -> Vec<u8> {
    assert!(d.len() <= 8224, "record too long: {}", d.len());
    let mut v = Vec::with_capacity(4 + d.len());
    v.extend_from_slice(&t.to_le_bytes());
    v.extend_from_slice(&(d.len() as u16).to_le_bytes());
    v.extend_from_slice(d);
    v
}

pub fn utf16(s: &str) -> Vec<u16> { s.encode_utf16().collect() }
pub fn compressible(u: &[u16]) -> bool { u.iter().all(|c| *c <= 0xFF) }

/// character bytes in the chosen packing
pub fn pack(u: &[u16], wide: bool) -> Vec<u8> {
    if wide { u.iter().flat_map(|c| c.to_le_bytes()).collect() } else { u.iter().map(|c| *c as u8).collect() }
}

/// ShortXLUnicodeString (cch 1 byte); `wide` is forced when the text is not compressible
pub fn short_str(s: &str, wide: bool) -> Vec<u8> {
    let u = utf16(s);
    let wide = wide || !compressible(&u);
    let mut v = vec![u.len() as u8, wide as u8];
    v.extend(pack(&u, wide));
    v
}
/// XLUnicodeString (cch 2 bytes)
pub fn xl_str(s: &str, wide: bool) -> Vec<u8> {
    let u = utf16(s);
    let wide = wide || !compressible(&u);
    let mut v = (u.len() as u16).to_le_bytes().to_vec();
    v.push(wide as u8);
    v.extend(pack(&u, wide));
    v
}

#[derive(Clone, Debug, PartialEq)]
pub enum FRes { Num(f64), Str(String, bool), Bool(bool), Err(u8), EmptyStr,
    /// string result of the anchor cell of a shared formula (0x04BC), array formula (0x0221) or data table (0x0236):
    /// that record sits between FORMULA and STRING
    StrVia(String, bool, u16) }

#[derive(Clone, Debug, PartialEq)]
pub enum BCell {
    Number { r: u16, c: u16, xf: u16, v: f64 },
    Rk { r: u16, c: u16, xf: u16, rk: u32 },
    MulRk { r: u16, c0: u16, items: Vec<(u16, u32)> },
    LabelSst { r: u16, c: u16, xf: u16, isst: u32 },
    Label { r: u16, c: u16, xf: u16, text: String, wide: bool },
    BoolErr { r: u16, c: u16, xf: u16, val: u8, is_err: bool },
    Formula { r: u16, c: u16, xf: u16, res: FRes, rgce: Vec<u8> },
    Blank { r: u16, c: u16, xf: u16 },
    MulBlank { r: u16, c0: u16, xfs: Vec<u16> },
    /// any other record, verbatim (type, payload)
    Raw(u16, Vec<u8>),
}

pub fn cell_records(c: &BCell) -> Vec<u8> {
    match c {
        BCell::Number { r, c, xf, v } => { let mut d = vec![]; d.extend(r.to_le_bytes()); d.extend(c.to_le_bytes()); d.extend(xf.to_le_bytes()); d.extend(v.to_le_bytes()); rec(0x0203, &d) }
        BCell::Rk { r, c, xf, rk } => { let mut d = vec![]; d.extend(r.to_le_bytes()); d.extend(c.to_le_bytes()); d.extend(xf.to_le_bytes()); d.extend(rk.to_le_bytes()); rec(0x027E, &d) }
        BCell::MulRk { r, c0, items } => {
            let mut d = vec![]; d.extend(r.to_le_bytes()); d.extend(c0.to_le_bytes());
            for (xf, rk) in items { d.extend(xf.to_le_bytes()); d.extend(rk.to_le_bytes()); }
            d.extend((c0 + items.len() as u16 - 1).to_le_bytes());
            rec(0x00BD, &d)
        }
        BCell::LabelSst { r, c, xf, isst } => { let mut d = vec![]; d.extend(r.to_le_bytes()); d.extend(c.to_le_bytes()); d.extend(xf.to_le_bytes()); d.extend(isst.to_le_bytes()); rec(0x00FD, &d) }
        BCell::Label { r, c, xf, text, wide } => { let mut d = vec![]; d.extend(r.to_le_bytes()); d.extend(c.to_le_bytes()); d.extend(xf.to_le_bytes()); d.extend(xl_str(text, *wide)); rec(0x0204, &d) }
        BCell::BoolErr { r, c, xf, val, is_err } => { let mut d = vec![]; d.extend(r.to_le_bytes()); d.extend(c.to_le_bytes()); d.extend(xf.to_le_bytes()); d.push(*val); d.push(*is_err as u8); rec(0x0205, &d) }
        BCell::Blank { r, c, xf } => { let mut d = vec![]; d.extend(r.to_le_bytes()); d.extend(c.to_le_bytes()); d.extend(xf.to_le_bytes()); rec(0x0201, &d) }
        BCell::MulBlank { r, c0, xfs } => {
            let mut d = vec![]; d.extend(r.to_le_bytes()); d.extend(c0.to_le_bytes());
            for xf in xfs { d.extend(xf.to_le_bytes()); }
            d.extend((c0 + xfs.len() as u16 - 1).to_le_bytes());
            rec(0x00BE, &d)
        }
        BCell::Formula { r, c, xf, res, rgce } => {
            let mut d = vec![]; d.extend(r.to_le_bytes()); d.extend(c.to_le_bytes()); d.extend(xf.to_le_bytes());
            let val: [u8; 8] = match res {
                FRes::Num(v) => v.to_le_bytes(),
                FRes::Str(..) | FRes::StrVia(..) => [0, 0, 0, 0, 0, 0, 0xFF, 0xFF],
                FRes::Bool(b) => [1, 0, *b as u8, 0, 0, 0, 0xFF, 0xFF],
                FRes::Err(e) => [2, 0, *e, 0, 0, 0, 0xFF, 0xFF],
                FRes::EmptyStr => [3, 0, 0, 0, 0, 0, 0xFF, 0xFF],
            };
            d.extend(val);
            d.extend(0u16.to_le_bytes()); // grbit
            d.extend(0u32.to_le_bytes()); // chn
            d.extend((rgce.len() as u16).to_le_bytes());
            d.extend(rgce);
            let mut out = rec(0x0006, &d);
            if let FRes::Str(s, wide) = res { out.extend(rec(0x0207, &xl_str(s, *wide))); }
            if let FRes::StrVia(s, wide, t) = res {
                let mut p = vec![];
                match *t {
                    0x04BC => { p.extend(r.to_le_bytes()); p.extend(r.to_le_bytes()); p.push(*c as u8); p.push(*c as u8); p.push(0); p.push(1); p.extend(3u16.to_le_bytes()); p.extend([0x1E, 1, 0]); } // SHRFMLA
                    0x0221 => { p.extend(r.to_le_bytes()); p.extend(r.to_le_bytes()); p.push(*c as u8); p.push(*c as u8); p.extend(0u16.to_le_bytes()); p.extend(0u32.to_le_bytes()); p.extend(3u16.to_le_bytes()); p.extend([0x1E, 1, 0]); } // ARRAY
                    _ => { p.extend(r.to_le_bytes()); p.extend(r.to_le_bytes()); p.push(*c as u8); p.push(*c as u8); p.extend(0u16.to_le_bytes()); p.extend([0u8; 8]); } // TABLE
                }
                out.extend(rec(*t, &p));
                out.extend(rec(0x0207, &xl_str(s, *wide)));
            }
            out
        }
        BCell::Raw(t, d) => rec(*t, d),
    }
}

#[derive(Clone, Debug)]
pub struct BSheet {
    pub name: String,
    pub name_wide: bool,
    /// hsState: 0 visible, 1 hidden, 2 very hidden
    pub state: u8,
    /// dt: 0 worksheet, 1 macro, 2 chart, 6 VBA module
    pub dt: u8,
    pub cells: Vec<BCell>,
    /// MERGECELLS records: each a list of (rwFirst, rwLast, colFirst, colLast)
    pub merges: Vec<Vec<(u16, u16, u16, u16)>>,
}
impl BSheet {
    pub fn new(name: &str, cells: Vec<BCell>) -> BSheet { BSheet { name: name.into(), name_wide: false, state: 0, dt: 0, cells, merges: vec![] } }
}

#[derive(Clone, Debug, Default)]
pub struct BBook {
    pub sheets: Vec<BSheet>,
    /// complete SST record (+CONTINUEs) bytes; empty = no SST
    pub sst_records: Vec<u8>,
    pub formats: Vec<(u16, String)>,
    /// ifmt of each XF record (at least one is always written)
    pub xfs: Vec<u16>,
    pub date1904: bool,
    /// FILEPASS payload and where to put it: 0 = right after BOF, 1 = after INTERFACEHDR/WRITEACCESS-like records
    pub filepass: Option<(Vec<u8>, u8)>,
    /// XTI entries (itabFirst, itabLast) referring to this workbook
    pub extern_sheets: Option<Vec<(i16, i16)>>,
    /// defined names: (name, rgce)
    pub names: Vec<(String, Vec<u8>)>,
    /// extra ignorable global records after BOF (type, payload)
    pub extra_globals: Vec<(u16, Vec<u8>)>,
    /// physical order of the sheet substreams after the globals (indices into `sheets`); empty = BoundSheet8 order.
    /// BoundSheet8.lbPlyPos points at each substream wherever it is.
    pub substream_order: Vec<usize>,
    /// FORMAT strings stored 16-bit (fHighByte = 1) even when compressible
    pub formats_wide: bool,
}

pub fn bof(dt: u16) -> Vec<u8> {
    let mut d = vec![];
    d.extend(0x0600u16.to_le_bytes()); d.extend(dt.to_le_bytes()); d.extend(0x0DBBu16.to_le_bytes()); d.extend(0x07CCu16.to_le_bytes());
    d.extend(0u32.to_le_bytes()); d.extend(0x0006u32.to_le_bytes());
    rec(0x0809, &d)
}

fn sheet_stream(s: &BSheet) -> Vec<u8> {
    let mut o = bof(match s.dt { 2 => 0x0020, 1 => 0x0040, 6 => 0x0006, _ => 0x0010 });
    let mut d = vec![]; d.extend(0u32.to_le_bytes()); d.extend(10u32.to_le_bytes()); d.extend(0u16.to_le_bytes()); d.extend(10u16.to_le_bytes()); d.extend(0u16.to_le_bytes());
    o.extend(rec(0x0200, &d));
    for c in &s.cells { o.extend(cell_records(c)); }
    for m in &s.merges {
        let mut d = (m.len() as u16).to_le_bytes().to_vec();
        for (a, b, c, e) in m { d.extend(a.to_le_bytes()); d.extend(b.to_le_bytes()); d.extend(c.to_le_bytes()); d.extend(e.to_le_bytes()); }
        o.extend(rec(0x00E5, &d));
    }
    o.extend(rec(0x000A, &[]));
    o
}

/// The Workbook stream.
pub fn workbook_stream(b: &BBook) -> Vec<u8> {
    let globals = |offsets: &[u32]| -> Vec<u8> {
        let mut g = bof(0x0005);
        if let Some((fp, 0)) = &b.filepass { g.extend(rec(0x002F, fp)); }
        // INTERFACEHDR, WRITEACCESS-like preamble some writers emit before FILEPASS
        for (t, d) in &b.extra_globals { g.extend(rec(*t, d)); }
        if let Some((fp, 1)) = &b.filepass { g.extend(rec(0x002F, fp)); }
        g.extend(rec(0x0042, &1200u16.to_le_bytes()));
        if b.date1904 { g.extend(rec(0x0022, &1u16.to_le_bytes())); } else { g.extend(rec(0x0022, &0u16.to_le_bytes())); }
        for (ifmt, code) in &b.formats { let mut d = ifmt.to_le_bytes().to_vec(); d.extend(xl_str(code, b.formats_wide)); g.extend(rec(0x041E, &d)); }
        let xfs: Vec<u16> = if b.xfs.is_empty() { vec![0] } else { b.xfs.clone() };
        for ifmt in xfs { let mut d = 0u16.to_le_bytes().to_vec(); d.extend(ifmt.to_le_bytes()); d.extend([0u8; 16]); g.extend(rec(0x00E0, &d)); }
        for (s, off) in b.sheets.iter().zip(offsets) {
            let mut d = off.to_le_bytes().to_vec(); d.push(s.state); d.push(s.dt); d.extend(short_str(&s.name, s.name_wide));
            g.extend(rec(0x0085, &d));
        }
        if let Some(x) = &b.extern_sheets {
            let mut d = (b.sheets.len() as u16).to_le_bytes().to_vec(); d.extend(0x0401u16.to_le_bytes());
            g.extend(rec(0x01AE, &d));
            let mut d = (x.len() as u16).to_le_bytes().to_vec();
            for (a, z) in x { d.extend(0u16.to_le_bytes()); d.extend(a.to_le_bytes()); d.extend(z.to_le_bytes()); }
            g.extend(rec(0x0017, &d));
        }
        for (n, rgce) in &b.names {
            // Lbl: grbit(2) chKey(1) cch(1) cce(2) reserved(2) itab(2) 4 x cch-menu etc(1 each) then XLUnicodeStringNoCch, rgce
            let u = utf16(n);
            let mut d = vec![]; d.extend(0u16.to_le_bytes()); d.push(0); d.push(u.len() as u8); d.extend((rgce.len() as u16).to_le_bytes());
            d.extend(0u16.to_le_bytes()); d.extend(0u16.to_le_bytes()); d.extend([0u8; 4]);
            let wide = !compressible(&u);
            d.push(wide as u8); d.extend(pack(&u, wide)); d.extend(rgce);
            g.extend(rec(0x0018, &d));
        }
        g.extend(&b.sst_records);
        g.extend(rec(0x000A, &[]));
        g
    };
    let g0 = globals(&vec![0; b.sheets.len()]);
    let subs: Vec<Vec<u8>> = b.sheets.iter().map(sheet_stream).collect();
    let order: Vec<usize> = if b.substream_order.is_empty() { (0..subs.len()).collect() } else { b.substream_order.clone() };
    assert!({ let mut o = order.clone(); o.sort(); o == (0..subs.len()).collect::<Vec<_>>() }, "substream_order must be a permutation");
    let mut offs = vec![0u32; subs.len()];
    let mut pos = g0.len() as u32;
    for i in &order { offs[*i] = pos; pos += subs[*i].len() as u32; }
    let mut out = globals(&offs);
    for i in &order { out.extend(&subs[*i]); }
    out
}

// ---------------------------------------------------------------------------------------------
// SST with every legal CONTINUE split

#[derive(Clone, Debug, PartialEq)]
pub struct SstString {
    pub text: String,
    /// number of formatting runs (4 bytes each)
    pub runs: usize,
    /// ExtRst block bytes
    pub ext: Vec<u8>,
}
/// or-ed into `SstString::runs`: the string carries the fExtSt flag and a zero-length ExtRst block (cbExtRst = 0 is legal)
pub const EMPTY_EXT: usize = 1 << 20;
impl SstString {
    pub fn plain(s: &str) -> SstString { SstString { text: s.into(), runs: 0, ext: vec![] } }
}

#[derive(Clone, Debug)]
enum Atom {
    /// (string index)
    Header(usize),
    /// one character = 1 or 2 UTF-16 units; (string index, units)
    Char(usize, Vec<u16>),
    Bytes(Vec<u8>),
}
#[derive(Clone, Copy, Debug, PartialEq)]
enum CutKind { No, Plain, Chars }

/// A large SST of 8-bit strings, cut only between strings (a new CONTINUE whenever the next string would pass 8224 bytes).
pub fn sst_records_whole(strings: &[String], total_refs: u32) -> Vec<u8> {
    let mut out = vec![];
    let mut cur: Vec<u8> = vec![]; cur.extend(total_refs.to_le_bytes()); cur.extend((strings.len() as u32).to_le_bytes());
    let mut typ = 0x00FCu16;
    for s in strings {
        assert!(s.is_ascii());
        let mut d = (s.len() as u16).to_le_bytes().to_vec(); d.push(0); d.extend(s.as_bytes());
        if cur.len() + d.len() > 8224 { out.extend(rec(typ, &cur)); typ = 0x003C; cur.clear(); }
        cur.extend(d);
    }
    out.extend(rec(typ, &cur));
    out
}

/// Serialise the SST into SST + CONTINUE records. Every legal cut point is a choice (default: no cut
/// unless the 8224-byte limit forces one); every character segment that is compressible may be stored
/// 8-bit or 16-bit (default 8-bit).
pub fn sst_records(ch: &mut Chooser, strings: &[SstString], total_refs: u32) -> Vec<u8> {
    let mut atoms: Vec<(Atom, CutKind)> = vec![];
    for (i, s) in strings.iter().enumerate() {
        // a cut before the first string leaves only the 8-byte table header in the SST record itself
        atoms.push((Atom::Header(i), CutKind::Plain));
        let u = utf16(&s.text);
        let mut k = 0;
        let mut first = true;
        while k < u.len() {
            let n = if (0xD800..0xDC00).contains(&u[k]) && k + 1 < u.len() { 2 } else { 1 };
            atoms.push((Atom::Char(i, u[k..k + n].to_vec()), if first { CutKind::No } else { CutKind::Chars }));
            first = false;
            k += n;
        }
        for r in 0..(s.runs & !EMPTY_EXT) { atoms.push((Atom::Bytes(vec![r as u8, 0, 1, 0]), CutKind::Plain)); }
        for (j, b) in s.ext.iter().enumerate() { atoms.push((Atom::Bytes(vec![*b]), if j == 0 || true { CutKind::Plain } else { CutKind::No })); }
    }
    // chosen cuts
    let mut cut: Vec<bool> = atoms.iter().map(|(_, k)| match k { CutKind::No => false, CutKind::Plain => ch.flag("sst.cut-between-blocks"), CutKind::Chars => ch.flag("sst.cut-between-chars") }).collect();
    // character segments (maximal runs of Char atoms of one string without a cut) and their packing;
    // the packing choice of a segment is made once (keyed by its first atom) and kept when forced cuts
    // at the 8224-byte limit split it further (new pieces default to 8-bit when compressible)
    let mut chosen: std::collections::HashMap<usize, bool> = std::collections::HashMap::new();
    let mut first_pass = true;
    loop {
        let mut seg_wide: Vec<Option<bool>> = vec![None; atoms.len()]; // at segment start
        let mut i = 0;
        while i < atoms.len() {
            if let Atom::Char(si, _) = &atoms[i].0 {
                let mut j = i;
                let mut units: Vec<u16> = vec![];
                while j < atoms.len() {
                    match &atoms[j].0 { Atom::Char(sj, u) if sj == si && (j == i || !cut[j]) => { units.extend(u); j += 1; } _ => break }
                }
                let wide = if !compressible(&units) { true } else if let Some(w) = chosen.get(&i) { *w } else if first_pass { ch.flag("sst.segment-16bit-though-compressible") } else { false };
                chosen.insert(i, wide);
                seg_wide[i] = Some(wide);
                i = j;
            } else { i += 1; }
        }
        first_pass = false;
        // serialise
        let mut records: Vec<Vec<u8>> = vec![{ let mut d = total_refs.to_le_bytes().to_vec(); d.extend((strings.len() as u32).to_le_bytes()); d }];
        let mut cur_wide = false;
        let mut overflow_at: Option<(usize, usize)> = None;
        let mut rec_start = 0usize;
        for (i, (a, _)) in atoms.iter().enumerate() {
            if cut[i] {
                records.push(vec![]);
                rec_start = i;
                if let Atom::Char(..) = a { records.last_mut().unwrap().push(seg_wide[i].unwrap() as u8); }
            }
            if let Some(w) = seg_wide[i] { cur_wide = w; }
            let bytes: Vec<u8> = match a {
                Atom::Header(si) => {
                    let s = &strings[*si];
                    let u = utf16(&s.text);
                    // the header's fHighByte describes the first character segment
                    let first_wide = if u.is_empty() { false } else { seg_wide[i + 1].unwrap_or(false) };
                    let mut flags = first_wide as u8;
                    let (runs, empty_ext) = (s.runs & !EMPTY_EXT, s.runs & EMPTY_EXT != 0);
                    if runs > 0 { flags |= 0x08; }
                    if !s.ext.is_empty() || empty_ext { flags |= 0x04; }
                    let mut h = (u.len() as u16).to_le_bytes().to_vec();
                    h.push(flags);
                    if runs > 0 { h.extend((runs as u16).to_le_bytes()); }
                    if !s.ext.is_empty() || empty_ext { h.extend((s.ext.len() as u32).to_le_bytes()); }
                    h
                }
                Atom::Char(_, u) => pack(u, cur_wide),
                Atom::Bytes(b) => b.clone(),
            };
            let r = records.last_mut().unwrap();
            if r.len() + bytes.len() > 8224 { overflow_at = Some((i, rec_start)); break; }
            r.extend(bytes);
        }
        match overflow_at {
            None => {
                let mut out = vec![];
                for (k, r) in records.iter().enumerate() { out.extend(rec(if k == 0 { 0x00FC } else { 0x003C }, r)); }
                return out;
            }
            Some((i, rec_start)) => {
                // force a cut at the last legal, not yet cut point inside the overflowing record
                let mut j = i;
                loop {
                    assert!(j > rec_start, "no legal cut point inside an overflowing record");
                    if atoms[j].1 != CutKind::No && !cut[j] { cut[j] = true; break; }
                    j -= 1;
                }
            }
        }
    }
}

/// RK encodings of a value (MS-XLS 2.5.217): all 32-bit words that decode exactly to `v`.
pub fn rk_encodings(v: f64) -> Vec<(&'static str, u32)> {
    let mut out = vec![];
    // float, no /100: low 34 bits of the double zero
    let b = v.to_bits();
    if b & 0x3_FFFF_FFFF == 0 { out.push(("rk-float", (b >> 32) as u32 & 0xFFFF_FFFC)); }
    // int, no /100
    if v.fract() == 0.0 && v >= -(1 << 29) as f64 && v < (1 << 29) as f64 && !(v == 0.0 && v.is_sign_negative()) {
        out.push(("rk-int", ((v as i32) << 2) as u32 | 2));
    }
    // x100 forms
    let h = v * 100.0;
    if h / 100.0 == v {
        let hb = h.to_bits();
        if hb & 0x3_FFFF_FFFF == 0 && f64::from_bits(hb) / 100.0 == v { out.push(("rk-float-x100", (hb >> 32) as u32 & 0xFFFF_FFFC | 1)); }
        if h.fract() == 0.0 && h >= -(1 << 29) as f64 && h < (1 << 29) as f64 && (h as i32) as f64 / 100.0 == v && !(h == 0.0 && h.is_sign_negative()) {
            out.push(("rk-int-x100", ((h as i32) << 2) as u32 | 3));
        }
    }
    out
}
