//! MS-OVBA: compressed containers with explicit tokenisation, the dir stream, and project assembly.
use super::cfb::Entry;

#[derive(Clone, Copy, Debug, PartialEq)]
pub enum Tok { Lit(u8), Copy { offset: u16, len: u16 } }

/// bit count of the offset field for a copy token at decompressed position `pos` in its chunk
/// (MS-OVBA 2.4.1.3.19.1 CopyToken Help)
pub fn offset_bits(pos: usize) -> u32 {
    let mut bits = 4u32;
    while (1usize << bits) < pos { bits += 1; }
    bits
}
pub fn max_copy_len(pos: usize) -> usize { (0xFFFFusize >> offset_bits(pos)) + 3 }

/// reference decompression of a token list (one chunk)
pub fn expand(tokens: &[Tok]) -> Vec<u8> {
    let mut out: Vec<u8> = vec![];
    for t in tokens {
        match t {
            Tok::Lit(b) => out.push(*b),
            Tok::Copy { offset, len } => { for _ in 0..*len { let b = out[out.len() - *offset as usize]; out.push(b); } }
        }
    }
    out
}

/// one compressed chunk (header + token sequences) from a token list whose expansion is <= 4096 bytes
pub fn chunk(tokens: &[Tok]) -> Vec<u8> {
    let mut data: Vec<u8> = vec![];
    let mut pos = 0usize;
    for group in tokens.chunks(8) {
        let mut flags = 0u8;
        let mut body: Vec<u8> = vec![];
        for (i, t) in group.iter().enumerate() {
            match t {
                Tok::Lit(b) => { body.push(*b); pos += 1; }
                Tok::Copy { offset, len } => {
                    flags |= 1 << i;
                    let bits = offset_bits(pos);
                    let tok: u16 = (((*offset - 1) as u32) << (16 - bits)) as u16 | (*len - 3);
                    body.extend(tok.to_le_bytes());
                    pos += *len as usize;
                }
            }
        }
        data.push(flags);
        data.extend(body);
    }
    assert!(data.len() <= 4096 && pos <= 4096, "chunk too large");
    let hdr: u16 = ((data.len() + 2 - 3) as u16) | 0x3000 | 0x8000;
    let mut out = hdr.to_le_bytes().to_vec();
    out.extend(data);
    out
}

/// raw (uncompressed) chunk: exactly 4096 bytes
pub fn raw_chunk(bytes: &[u8]) -> Vec<u8> {
    assert_eq!(bytes.len(), 4096);
    let hdr: u16 = (4098u16 - 3) | 0x3000;
    let mut out = hdr.to_le_bytes().to_vec();
    out.extend(bytes);
    out
}

pub fn container(chunks: &[Vec<u8>]) -> Vec<u8> {
    let mut out = vec![0x01u8];
    for c in chunks { out.extend(c); }
    out
}

/// greedy tokenisation (longest match, nearest offset) of one chunk's source
pub fn greedy(src: &[u8]) -> Vec<Tok> {
    let mut t = vec![];
    let mut p = 0;
    while p < src.len() {
        let mut best = (0usize, 0usize);
        if p >= 1 {
            let maxl = max_copy_len(p).min(src.len() - p);
            let maxoff = p.min(1 << offset_bits(p));
            for off in 1..=maxoff {
                let mut l = 0;
                while l < maxl && src[p + l] == src[p + l - off] { l += 1; }
                if l > best.1 { best = (off, l); }
            }
        }
        if best.1 >= 3 { t.push(Tok::Copy { offset: best.0 as u16, len: best.1 as u16 }); p += best.1; } else { t.push(Tok::Lit(src[p])); p += 1; }
    }
    t
}

/// compress a whole source: 4096-byte chunks, each greedy / literal-only / raw (full chunks only)
pub fn compress(src: &[u8], mode: u8) -> Vec<u8> {
    let mut chunks = vec![];
    for c in src.chunks(4096) {
        let lits: Vec<Tok> = c.iter().map(|b| Tok::Lit(*b)).collect();
        let ch = match mode {
            1 if c.len() <= 3600 => chunk(&lits),
            2 if c.len() == 4096 => raw_chunk(c),
            _ => {
                let g = greedy(c);
                let size: usize = g.chunks(8).map(|grp| 1 + grp.iter().map(|t| if let Tok::Lit(_) = t { 1 } else { 2 }).sum::<usize>()).sum();
                if size > 4096 && c.len() == 4096 { raw_chunk(c) } else { chunk(&g) }
            }
        };
        chunks.push(ch);
    }
    container(&chunks)
}

// ------------------------------------------------------------------------------------------------
#[derive(Clone, Debug)]
pub enum RefKind {
    Registered,
    Project,
    /// control reference; `original`: preceded by REFERENCEORIGINAL; `extended_name`: NameRecordExtended present
    Control { original: bool, extended_name: bool },
}

#[derive(Clone, Debug)]
pub struct VRef { pub name: String, pub kind: RefKind }

#[derive(Clone, Debug)]
pub struct VModule {
    pub name: String,
    pub stream_name: String,
    pub source: Vec<u8>,
    /// bytes of "performance cache" before the compressed source
    pub text_offset: usize,
    /// compression mode for `compress`
    pub mode: u8,
    pub class_module: bool,
    pub read_only: bool,
    pub private: bool,
}

#[derive(Clone, Debug)]
pub struct VProject {
    pub codepage: u16,
    pub modules: Vec<VModule>,
    pub refs: Vec<VRef>,
    pub compat_version: bool,
    /// project description, help file path and conditional-compilation constants are non-empty (ANSI and unicode halves)
    pub descriptive: bool,
}

fn enc(cp: u16, s: &str) -> Vec<u8> {
    match cp {
        932 => encoding_rs_shim::shift_jis(s),
        _ => s.chars().map(|c| match c as u32 { 0..=0x7F => c as u8, 0xA0..=0xFF => c as u8, 0x20AC => 0x80, _ => b'?' }).collect(),
    }
}

/// tiny local encoders so the harness needs no extra dependency
mod encoding_rs_shim {
    pub fn shift_jis(s: &str) -> Vec<u8> {
        // ASCII plus the katakana/hiragana code points used by the harness
        let mut v = vec![];
        for c in s.chars() {
            match c {
                '\u{30E2}' => v.extend([0x83, 0x82]), // モ
                '\u{30B8}' => v.extend([0x83, 0x57]), // ジ
                '\u{30E5}' => v.extend([0x83, 0x85]), // ュ
                '\u{30FC}' => v.extend([0x81, 0x5B]), // ー
                '\u{30EB}' => v.extend([0x83, 0x8B]), // ル
                c if (c as u32) < 0x80 => v.push(c as u8),
                _ => v.push(b'?'),
            }
        }
        v
    }
}

fn rec_var(id: u16, data: &[u8]) -> Vec<u8> { let mut v = id.to_le_bytes().to_vec(); v.extend((data.len() as u32).to_le_bytes()); v.extend(data); v }
fn u16s(s: &str) -> Vec<u8> { s.encode_utf16().flat_map(|c| c.to_le_bytes()).collect() }

/// the decompressed dir stream (MS-OVBA 2.3.4.2)
pub fn dir_stream(p: &VProject) -> Vec<u8> {
    let cp = p.codepage;
    let mut d = vec![];
    d.extend(rec_var(0x0001, &1u32.to_le_bytes())); // PROJECTSYSKIND
    if p.compat_version { d.extend(rec_var(0x004A, &3u32.to_le_bytes())); }
    d.extend(rec_var(0x0002, &0x0409u32.to_le_bytes())); // LCID
    d.extend(rec_var(0x0014, &0x0409u32.to_le_bytes())); // LCIDINVOKE
    d.extend(rec_var(0x0003, &cp.to_le_bytes())); // CODEPAGE
    d.extend(rec_var(0x0004, b"VBAProject")); // NAME
    let u16s = |t: &str| -> Vec<u8> { t.encode_utf16().flat_map(|c| c.to_le_bytes()).collect() };
    if p.descriptive {
        // sizes are byte counts, also for the unicode halves
        d.extend(rec_var(0x0005, b"Quarterly figures")); d.extend(rec_var(0x0040, &u16s("Quarterly figures"))); // DOCSTRING
        d.extend(rec_var(0x0006, b"C:\\help\\a.chm")); d.extend(rec_var(0x003D, b"C:\\help\\a.chm")); // HELPFILEPATH (both ANSI)
    } else {
        d.extend(rec_var(0x0005, b"")); d.extend(rec_var(0x0040, b"")); // DOCSTRING
        d.extend(rec_var(0x0006, b"")); d.extend(rec_var(0x003D, b"")); // HELPFILEPATH
    }
    d.extend(rec_var(0x0007, &0u32.to_le_bytes())); // HELPCONTEXT
    d.extend(rec_var(0x0008, &0u32.to_le_bytes())); // LIBFLAGS
    d.extend(0x0009u16.to_le_bytes()); d.extend(4u32.to_le_bytes()); d.extend(0x5F0F_C2E3u32.to_le_bytes()); d.extend(0x0011u16.to_le_bytes()); // VERSION
    if p.descriptive { d.extend(rec_var(0x000C, b"DEBUGMODE = 1")); d.extend(rec_var(0x003C, &u16s("DEBUGMODE = 1"))); } else { d.extend(rec_var(0x000C, b"")); d.extend(rec_var(0x003C, b"")); } // CONSTANTS
    for r in &p.refs {
        let name = enc(cp, &r.name);
        d.extend(rec_var(0x0016, &name)); d.extend(rec_var(0x003E, &u16s(&r.name)));
        let libid = b"*\\G{00020430-0000-0000-C000-000000000046}#2.0#0#C:\\Windows\\System32\\stdole2.tlb#OLE Automation".to_vec();
        match &r.kind {
            RefKind::Registered => {
                let mut body = (libid.len() as u32).to_le_bytes().to_vec(); body.extend(&libid); body.extend(0u32.to_le_bytes()); body.extend(0u16.to_le_bytes());
                d.extend(0x000Du16.to_le_bytes()); d.extend((body.len() as u32).to_le_bytes()); d.extend(body);
            }
            RefKind::Project => {
                let abs = b"*\\CC:\\books\\other.xlsm".to_vec(); let rel = b"*\\Cother.xlsm".to_vec();
                let mut body = (abs.len() as u32).to_le_bytes().to_vec(); body.extend(&abs); body.extend((rel.len() as u32).to_le_bytes()); body.extend(&rel); body.extend(1u32.to_le_bytes()); body.extend(2u16.to_le_bytes());
                d.extend(0x000Eu16.to_le_bytes()); d.extend((body.len() as u32).to_le_bytes()); d.extend(body);
            }
            RefKind::Control { original, extended_name } => {
                if *original { d.extend(0x0033u16.to_le_bytes()); d.extend((libid.len() as u32).to_le_bytes()); d.extend(&libid); }
                let tw = b"*\\G{00000000-0000-0000-0000-000000000000}#2.0#0#C:\\ctl\\twiddled.exd#Twiddled".to_vec();
                let mut body = (tw.len() as u32).to_le_bytes().to_vec(); body.extend(&tw); body.extend(0u32.to_le_bytes()); body.extend(0u16.to_le_bytes());
                d.extend(0x002Fu16.to_le_bytes()); d.extend((body.len() as u32).to_le_bytes()); d.extend(body);
                if *extended_name { let en = enc(cp, &format!("{}X", r.name)); d.extend(rec_var(0x0016, &en)); d.extend(rec_var(0x003E, &u16s(&format!("{}X", r.name)))); }
                let ext = b"*\\G{11111111-0000-0000-0000-000000000000}#2.0#0#C:\\ctl\\extended.ocx#Extended control".to_vec();
                let mut body = (ext.len() as u32).to_le_bytes().to_vec(); body.extend(&ext); body.extend(0u32.to_le_bytes()); body.extend(0u16.to_le_bytes()); body.extend([0u8; 16]); body.extend(7u32.to_le_bytes());
                d.extend(0x0030u16.to_le_bytes()); d.extend((body.len() as u32).to_le_bytes()); d.extend(body);
            }
        }
    }
    // PROJECTMODULES
    d.extend(0x000Fu16.to_le_bytes()); d.extend(2u32.to_le_bytes()); d.extend((p.modules.len() as u16).to_le_bytes());
    d.extend(0x0013u16.to_le_bytes()); d.extend(2u32.to_le_bytes()); d.extend(0xFFFFu16.to_le_bytes());
    for m in &p.modules {
        d.extend(rec_var(0x0019, &enc(cp, &m.name))); d.extend(rec_var(0x0047, &u16s(&m.name)));
        d.extend(rec_var(0x001A, &enc(cp, &m.stream_name))); d.extend(rec_var(0x0032, &u16s(&m.stream_name)));
        d.extend(rec_var(0x001C, b"")); d.extend(rec_var(0x0048, b""));
        d.extend(rec_var(0x0031, &(m.text_offset as u32).to_le_bytes()));
        d.extend(rec_var(0x001E, &0u32.to_le_bytes()));
        d.extend(rec_var(0x002C, &0xFFFFu16.to_le_bytes()));
        d.extend((if m.class_module { 0x0022u16 } else { 0x0021 }).to_le_bytes()); d.extend(0u32.to_le_bytes());
        if m.read_only { d.extend(0x0025u16.to_le_bytes()); d.extend(0u32.to_le_bytes()); }
        if m.private { d.extend(0x0028u16.to_le_bytes()); d.extend(0u32.to_le_bytes()); }
        d.extend(0x002Bu16.to_le_bytes()); d.extend(0u32.to_le_bytes());
    }
    d.extend(0x0010u16.to_le_bytes()); d.extend(0u32.to_le_bytes());
    d
}

/// CFB entries of a VBA project; `xls`: nested under `_VBA_PROJECT_CUR` (base index of following entries = `base`)
pub fn project_entries(p: &VProject, xls: bool, base: usize) -> Vec<Entry> {
    let mut e = vec![];
    let top: Option<usize> = if xls { e.push(Entry::storage("_VBA_PROJECT_CUR", None)); Some(base) } else { None };
    e.push(Entry::storage("VBA", top));
    let vba = base + e.len() - 1;
    e.push(Entry::stream("dir", compress(&dir_stream(p), 0), Some(vba)));
    e.push(Entry::stream("_VBA_PROJECT", vec![0xCC, 0x61, 0xFF, 0xFF, 0x00, 0x00, 0x00], Some(vba)));
    for m in &p.modules {
        let mut s = vec![0xEEu8; m.text_offset];
        s.extend(compress(&m.source, m.mode));
        e.push(Entry::stream(&m.stream_name, s, Some(vba)));
    }
    e.push(Entry::stream("PROJECT", b"ID=\"{00000000-0000-0000-0000-000000000000}\"\r\n".to_vec(), top));
    e
}
