//! MS-CFB (OLE2 compound file) writer with explicit physical-layout variation points.
const FREESECT: u32 = 0xFFFF_FFFF;
const ENDOFCHAIN: u32 = 0xFFFF_FFFE;
const FATSECT: u32 = 0xFFFF_FFFD;
const DIFSECT: u32 = 0xFFFF_FFFC;

#[derive(Clone, Debug)]
pub struct Entry {
    pub name: String,
    /// None = storage, Some = stream bytes
    pub data: Option<Vec<u8>>,
    /// index of the parent storage in the entry list; None = child of the root
    pub parent: Option<usize>,
}
impl Entry {
    pub fn stream(name: &str, data: Vec<u8>, parent: Option<usize>) -> Entry { Entry { name: name.into(), data: Some(data), parent } }
    pub fn storage(name: &str, parent: Option<usize>) -> Entry { Entry { name: name.into(), data: None, parent } }
}

#[derive(Clone, Copy, Debug, PartialEq)]
pub enum Order {
    /// FAT, DIFAT, directory, mini FAT, mini stream, streams — each chain ascending and contiguous
    Sequential,
    /// streams first, bookkeeping sectors at the end
    StreamsFirst,
    /// every chain laid out backwards (next sector has a lower id)
    Reversed,
    /// sectors of all chains dealt round-robin
    Interleaved,
    /// k-th rotation+stride permutation inside every chain of <= 6 sectors, reversed for longer ones
    Perm(u8),
}

#[derive(Clone, Debug)]
pub struct Layout {
    pub v4: bool,
    pub order: Order,
    /// same policy for mini sectors inside the mini stream
    pub mini_order: Order,
    /// number of unused (type 0) directory entries inserted after the root / between entries
    pub unused_dir_entries: usize,
    /// non-root directory entries stored in reverse order
    pub dir_reversed: bool,
    /// free sectors left in the file (marked FREESECT)
    pub free_sectors: usize,
    /// additional FAT sectors beyond the minimum (all their entries FREESECT)
    pub extra_fat_sectors: usize,
    /// free mini sectors left in the mini stream
    pub free_mini_sectors: usize,
    /// bytes of the 64-byte name field after the terminating NUL are stale non-zero bytes instead of zeros
    /// (MS-CFB only requires the terminator; the name length field delimits the name)
    pub name_garbage: bool,
    /// version 3 only: the upper 4 bytes of every allocated entry's 8-byte stream size hold junk (MS-CFB 2.6.3: old writers
    /// leave them uninitialised, readers must ignore them when sectors are 512 bytes)
    pub size_hi_garbage: bool,
    /// a mini FAT sector (all entries free) is allocated although no stream lives in the mini stream (what remains after
    /// every small stream was deleted): the root entry has no mini stream then
    pub empty_minifat_sector: bool,
    /// every regular stream chain and the mini-stream container chain own this many sectors more than their size needs
    /// (what is left after a stream shrank in place); the spare sectors are filled with 0xEE
    pub spare_chain_sectors: usize,
}
impl Default for Layout {
    fn default() -> Self {
        Layout { v4: false, order: Order::Sequential, mini_order: Order::Sequential, unused_dir_entries: 0, dir_reversed: false, free_sectors: 0, extra_fat_sectors: 0, free_mini_sectors: 0, name_garbage: false, size_hi_garbage: false, empty_minifat_sector: false, spare_chain_sectors: 0 }
    }
}

fn perm_of(n: usize, k: u8) -> Vec<usize> {
    // a family of distinct permutations of 0..n indexed by k (k=0 identity)
    let mut v: Vec<usize> = (0..n).collect();
    if n <= 1 { return v; }
    match k % 6 {
        0 => {}
        1 => v.reverse(),
        2 => v.rotate_left(1),
        3 => { v.rotate_left(n / 2); }
        4 => { // evens then odds
            let mut e: Vec<usize> = (0..n).filter(|i| i % 2 == 0).collect();
            e.extend((0..n).filter(|i| i % 2 == 1));
            v = e;
        }
        _ => { // odds descending then evens ascending
            let mut e: Vec<usize> = (0..n).filter(|i| i % 2 == 1).rev().collect();
            e.extend((0..n).filter(|i| i % 2 == 0));
            v = e;
        }
    }
    v
}

/// Assign physical slots to logical chains. `chains[i]` = number of sectors; `bookkeeping` = indices of
/// chains that are FAT/DIFAT/dir/minifat (for StreamsFirst). Returns per chain the physical ids in
/// logical order, and the total number of slots (including `free` unused ones).
fn assign(chains: &[usize], bookkeeping: &[bool], order: Order, free: usize) -> (Vec<Vec<u32>>, usize) {
    let total: usize = chains.iter().sum::<usize>() + free;
    // logical sequence of (chain, index) in physical order
    let mut seq: Vec<(usize, usize)> = vec![];
    let idxs: Vec<usize> = match order {
        Order::StreamsFirst => { let mut a: Vec<usize> = (0..chains.len()).filter(|i| !bookkeeping[*i]).collect(); a.extend((0..chains.len()).filter(|i| bookkeeping[*i])); a }
        _ => (0..chains.len()).collect(),
    };
    match order {
        Order::Interleaved => {
            let maxn = chains.iter().copied().max().unwrap_or(0);
            for j in 0..maxn { for i in &idxs { if j < chains[*i] { seq.push((*i, j)); } } }
        }
        _ => { for i in &idxs { for j in 0..chains[*i] { seq.push((*i, j)); } } }
    }
    // free slots: after the first sector, in the middle, at the end (cyclically)
    let mut phys: Vec<Option<(usize, usize)>> = seq.into_iter().map(Some).collect();
    for f in 0..free {
        let at = match f % 3 { 0 => 1.min(phys.len()), 1 => phys.len() / 2, _ => phys.len() };
        phys.insert(at, None);
    }
    let mut out: Vec<Vec<u32>> = chains.iter().map(|n| vec![0u32; *n]).collect();
    // slots owned by each chain, ascending
    let mut slots: Vec<Vec<u32>> = vec![vec![]; chains.len()];
    for (p, s) in phys.iter().enumerate() { if let Some((c, _)) = s { slots[*c].push(p as u32); } }
    for (c, sl) in slots.iter().enumerate() {
        let n = sl.len();
        let pm: Vec<usize> = match order {
            Order::Reversed => perm_of(n, 1),
            Order::Perm(k) => if n <= 6 { perm_of(n, k) } else { perm_of(n, 1) },
            _ => (0..n).collect(),
        };
        for (logical, slot_ix) in pm.iter().enumerate() { out[c][logical] = sl[*slot_ix]; }
    }
    (out, total)
}

fn cmp_names(a: &str, b: &str) -> std::cmp::Ordering {
    let (ua, ub): (Vec<u16>, Vec<u16>) = (a.to_uppercase().encode_utf16().collect(), b.to_uppercase().encode_utf16().collect());
    ua.len().cmp(&ub.len()).then(ua.cmp(&ub))
}

/// Build the compound file.
pub fn write(entries: &[Entry], lay: &Layout) -> Vec<u8> {
    let ss: usize = if lay.v4 { 4096 } else { 512 };
    let epp = ss / 4;
    // --- mini stream -------------------------------------------------------------------------
    let mini_ix: Vec<usize> = (0..entries.len()).filter(|i| entries[*i].data.as_ref().map(|d| !d.is_empty() && d.len() < 4096).unwrap_or(false)).collect();
    let mini_chains: Vec<usize> = mini_ix.iter().map(|i| entries[*i].data.as_ref().unwrap().len().div_ceil(64)).collect();
    let (mini_assign, mini_total) = assign(&mini_chains, &vec![false; mini_chains.len()], lay.mini_order, if mini_chains.is_empty() { 0 } else { lay.free_mini_sectors });
    let mut ministream = vec![0u8; mini_total * 64];
    let mut minifat = vec![FREESECT; mini_total];
    for (k, i) in mini_ix.iter().enumerate() {
        let d = entries[*i].data.as_ref().unwrap();
        for (j, id) in mini_assign[k].iter().enumerate() {
            let chunk = &d[j * 64..((j + 1) * 64).min(d.len())];
            ministream[*id as usize * 64..*id as usize * 64 + chunk.len()].copy_from_slice(chunk);
            minifat[*id as usize] = if j + 1 < mini_assign[k].len() { mini_assign[k][j + 1] } else { ENDOFCHAIN };
        }
    }
    let mut minifat_bytes: Vec<u8> = minifat.iter().flat_map(|x| x.to_le_bytes()).collect();
    while minifat_bytes.len() % ss != 0 { minifat_bytes.extend_from_slice(&FREESECT.to_le_bytes()); }
    if lay.empty_minifat_sector && minifat_bytes.is_empty() { for _ in 0..ss / 4 { minifat_bytes.extend_from_slice(&FREESECT.to_le_bytes()); } }
    // --- directory ---------------------------------------------------------------------------
    // physical entry order: root, then entries (maybe reversed) with unused entries sprinkled in
    let mut order: Vec<Option<usize>> = (0..entries.len()).map(Some).collect();
    if lay.dir_reversed { order.reverse(); }
    for u in 0..lay.unused_dir_entries {
        let at = if u % 2 == 0 { 0 } else { order.len() };
        order.insert(at.min(order.len()), None);
    }
    let did_of = |e: usize| -> u32 { 1 + order.iter().position(|x| *x == Some(e)).unwrap() as u32 };
    let n_dir = 1 + order.len();
    let per = ss / 128;
    let dir_sectors = n_dir.div_ceil(per);
    // --- chains ------------------------------------------------------------------------------
    // chain list: [dir, minifat, ministream, regular streams...]; FAT/DIFAT handled separately below
    let reg_ix: Vec<usize> = (0..entries.len()).filter(|i| entries[*i].data.as_ref().map(|d| d.len() >= 4096).unwrap_or(false)).collect();
    let spare = lay.spare_chain_sectors;
    let mut chains: Vec<usize> = vec![dir_sectors, minifat_bytes.len() / ss, ministream.len().div_ceil(ss) + if ministream.is_empty() { 0 } else { spare }];
    let mut book = vec![true, true, false];
    for i in &reg_ix { chains.push(entries[*i].data.as_ref().unwrap().len().div_ceil(ss) + spare); book.push(false); }
    let n_data: usize = chains.iter().sum::<usize>() + lay.free_sectors;
    // FAT / DIFAT sizes: fixpoint
    let mut f = 1usize;
    let mut dsec;
    loop {
        dsec = if f > 109 { (f - 109).div_ceil(epp - 1) } else { 0 };
        if f * epp >= n_data + f + dsec { break; }
        f += 1;
    }
    f += lay.extra_fat_sectors;
    dsec = if f > 109 { (f - 109).div_ceil(epp - 1) } else { 0 };
    // full chain list with FAT and DIFAT first
    let mut all = vec![f, dsec];
    all.extend(chains.iter().copied());
    let mut allbook = vec![true, true];
    allbook.extend(book.iter().copied());
    let (asg, total) = assign(&all, &allbook, lay.order, lay.free_sectors);
    let (fat_ids, dif_ids, dir_ids, mf_ids, ms_ids) = (&asg[0], &asg[1], &asg[2], &asg[3], &asg[4]);
    let mut fat = vec![FREESECT; f * epp];
    for id in fat_ids { fat[*id as usize] = FATSECT; }
    for id in dif_ids { fat[*id as usize] = DIFSECT; }
    for c in asg.iter().skip(2) {
        for (j, id) in c.iter().enumerate() { fat[*id as usize] = if j + 1 < c.len() { c[j + 1] } else { ENDOFCHAIN }; }
    }
    let mut sectors: Vec<Vec<u8>> = vec![vec![0u8; ss]; total];
    // streams
    for (k, i) in reg_ix.iter().enumerate() {
        let d = entries[*i].data.as_ref().unwrap();
        for (j, id) in asg[5 + k].iter().enumerate() {
            if j * ss >= d.len() { sectors[*id as usize].fill(0xEE); continue; }
            let chunk = &d[j * ss..((j + 1) * ss).min(d.len())];
            sectors[*id as usize][..chunk.len()].copy_from_slice(chunk);
        }
    }
    for (j, id) in ms_ids.iter().enumerate() {
        if j * ss >= ministream.len() { sectors[*id as usize].fill(0xEE); continue; }
        let chunk = &ministream[j * ss..((j + 1) * ss).min(ministream.len())];
        sectors[*id as usize][..chunk.len()].copy_from_slice(chunk);
    }
    for (j, id) in mf_ids.iter().enumerate() { sectors[*id as usize].copy_from_slice(&minifat_bytes[j * ss..(j + 1) * ss]); }
    // directory entries
    let start_of = |e: usize| -> (u32, u64) {
        match &entries[e].data {
            None => (0, 0),
            Some(d) if d.is_empty() => (ENDOFCHAIN, 0),
            Some(d) if d.len() < 4096 => { let k = mini_ix.iter().position(|x| *x == e).unwrap(); (mini_assign[k][0], d.len() as u64) }
            Some(d) => { let k = reg_ix.iter().position(|x| *x == e).unwrap(); (asg[5 + k][0], d.len() as u64) }
        }
    };
    // sibling trees per storage
    let mut left = vec![FREESECT; entries.len()];
    let mut right = vec![FREESECT; entries.len()];
    let mut child_of_root = FREESECT;
    let mut child = vec![FREESECT; entries.len()];
    let mut parents: Vec<Option<usize>> = vec![None];
    parents.extend((0..entries.len()).filter(|i| entries[*i].data.is_none()).map(Some));
    for p in parents {
        let mut kids: Vec<usize> = (0..entries.len()).filter(|i| entries[*i].parent == p).collect();
        kids.sort_by(|a, b| cmp_names(&entries[*a].name, &entries[*b].name));
        fn build(kids: &[usize], left: &mut [u32], right: &mut [u32], did_of: &dyn Fn(usize) -> u32) -> u32 {
            if kids.is_empty() { return FREESECT; }
            let m = kids.len() / 2;
            let l = build(&kids[..m], left, right, did_of);
            let r = build(&kids[m + 1..], left, right, did_of);
            left[kids[m]] = l;
            right[kids[m]] = r;
            did_of(kids[m])
        }
        let root = build(&kids, &mut left, &mut right, &did_of);
        match p { None => child_of_root = root, Some(pi) => child[pi] = root }
    }
    let dirent = |name: &str, typ: u8, l: u32, r: u32, c: u32, start: u32, size: u64| -> Vec<u8> {
        let mut e = vec![0u8; 128];
        let mut n: Vec<u8> = name.encode_utf16().flat_map(|u| u.to_le_bytes()).collect();
        let nl = if typ == 0 { 0 } else { n.len() + 2 };
        let used = n.len() + 2;
        n.resize(64, 0);
        if lay.name_garbage && typ != 0 { for (k, b) in n.iter_mut().enumerate().skip(used) { *b = if k % 2 == 0 { b'A' + (k % 23) as u8 } else { 0 }; } }
        e[..64].copy_from_slice(&n);
        e[64..66].copy_from_slice(&(nl as u16).to_le_bytes());
        e[66] = typ;
        e[67] = 1;
        e[68..72].copy_from_slice(&l.to_le_bytes());
        e[72..76].copy_from_slice(&r.to_le_bytes());
        e[76..80].copy_from_slice(&c.to_le_bytes());
        e[116..120].copy_from_slice(&start.to_le_bytes());
        e[120..128].copy_from_slice(&size.to_le_bytes());
        if lay.size_hi_garbage && !lay.v4 && typ != 0 { e[124..128].copy_from_slice(&[0x5A, 0xA5, 0x01, 0x80]); }
        e
    };
    let mut dir_bytes = dirent("Root Entry", 5, FREESECT, FREESECT, child_of_root, if ministream.is_empty() { ENDOFCHAIN } else { ms_ids[0] }, ministream.len() as u64);
    for o in &order {
        match o {
            None => dir_bytes.extend(dirent("", 0, FREESECT, FREESECT, FREESECT, 0, 0)),
            Some(e) => {
                let (st, sz) = start_of(*e);
                let typ = if entries[*e].data.is_some() { 2 } else { 1 };
                dir_bytes.extend(dirent(&entries[*e].name, typ, left[*e], right[*e], child[*e], st, sz));
            }
        }
    }
    while dir_bytes.len() % ss != 0 { dir_bytes.extend(dirent("", 0, FREESECT, FREESECT, FREESECT, 0, 0)); }
    for (j, id) in dir_ids.iter().enumerate() { sectors[*id as usize].copy_from_slice(&dir_bytes[j * ss..(j + 1) * ss]); }
    // FAT sectors
    let fat_bytes: Vec<u8> = fat.iter().flat_map(|x| x.to_le_bytes()).collect();
    for (j, id) in fat_ids.iter().enumerate() { sectors[*id as usize].copy_from_slice(&fat_bytes[j * ss..(j + 1) * ss]); }
    // DIFAT sectors: entries 109.. of the FAT sector list, last slot = next DIFAT sector
    for (j, id) in dif_ids.iter().enumerate() {
        let mut b: Vec<u8> = vec![];
        for k in 0..epp - 1 {
            let ix = 109 + j * (epp - 1) + k;
            b.extend_from_slice(&(if ix < fat_ids.len() { fat_ids[ix] } else { FREESECT }).to_le_bytes());
        }
        b.extend_from_slice(&(if j + 1 < dif_ids.len() { dif_ids[j + 1] } else { ENDOFCHAIN }).to_le_bytes());
        sectors[*id as usize].copy_from_slice(&b);
    }
    // header
    let mut h = vec![0u8; 512];
    h[..8].copy_from_slice(&[0xD0, 0xCF, 0x11, 0xE0, 0xA1, 0xB1, 0x1A, 0xE1]);
    h[24..26].copy_from_slice(&0x003Eu16.to_le_bytes());
    h[26..28].copy_from_slice(&(if lay.v4 { 4u16 } else { 3u16 }).to_le_bytes());
    h[28..30].copy_from_slice(&0xFFFEu16.to_le_bytes());
    h[30..32].copy_from_slice(&(if lay.v4 { 12u16 } else { 9u16 }).to_le_bytes());
    h[32..34].copy_from_slice(&6u16.to_le_bytes());
    h[40..44].copy_from_slice(&(if lay.v4 { dir_sectors as u32 } else { 0 }).to_le_bytes());
    h[44..48].copy_from_slice(&(f as u32).to_le_bytes());
    h[48..52].copy_from_slice(&dir_ids[0].to_le_bytes());
    h[56..60].copy_from_slice(&4096u32.to_le_bytes());
    h[60..64].copy_from_slice(&(if mf_ids.is_empty() { ENDOFCHAIN } else { mf_ids[0] }).to_le_bytes());
    h[64..68].copy_from_slice(&(mf_ids.len() as u32).to_le_bytes());
    h[68..72].copy_from_slice(&(if dif_ids.is_empty() { ENDOFCHAIN } else { dif_ids[0] }).to_le_bytes());
    h[72..76].copy_from_slice(&(dif_ids.len() as u32).to_le_bytes());
    for k in 0..109 {
        let v = if k < fat_ids.len() { fat_ids[k] } else { FREESECT };
        h[76 + 4 * k..80 + 4 * k].copy_from_slice(&v.to_le_bytes());
    }
    let mut out = h;
    out.resize(ss, 0);
    for s in sectors { out.extend(s); }
    out
}

/// Simplest container: streams directly under the root, default layout.
pub fn simple(streams: &[(&str, Vec<u8>)], lay: &Layout) -> Vec<u8> {
    let e: Vec<Entry> = streams.iter().map(|(n, d)| Entry::stream(n, d.clone(), None)).collect();
    write(&e, lay)
}
