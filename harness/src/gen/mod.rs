//! Writers for the file formats (independent of calamine's parsers).
