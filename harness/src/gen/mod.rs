//! Writers for the file formats (independent of calamine's parsers).
pub mod xml;
pub mod biff8;
pub mod cfb;
pub mod ods;
pub mod ovba;
pub mod xlsb;
pub mod xlsx;
pub mod zipw;
