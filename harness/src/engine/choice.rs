//! E1 — stateless choice-tree explorer. A case is a deterministic closure that asks a `Chooser`
//! for every decision; the explorer enumerates the full product (odometer DFS) or all vectors with
//! at most `d` deviations from the all-zero default.
use std::collections::{BTreeMap, BTreeSet};

pub struct Chooser {
    prefix: Vec<u32>,
    pos: usize,
    pub trace: Vec<(u32, u32)>,
    pub labels: Vec<&'static str>,
}

impl Chooser {
    pub fn new(prefix: &[u32]) -> Self {
        Chooser { prefix: prefix.to_vec(), pos: 0, trace: Vec::new(), labels: Vec::new() }
    }
    /// Decide among `n` alternatives (0 = default / simplest).
    pub fn choose(&mut self, label: &'static str, n: usize) -> usize {
        assert!(n >= 1, "choose({label}) with no alternative");
        let c = if self.pos < self.prefix.len() {
            let c = self.prefix[self.pos];
            if c as usize >= n {
                // determinism check: replaying a prefix must see the same arities
                eprintln!("MACHINERY: replay divergence at {label} pos {} choice {c} arity {n}", self.pos);
                std::process::exit(2);
            }
            c
        } else {
            0
        };
        self.trace.push((c, n as u32));
        self.labels.push(label);
        self.pos += 1;
        c as usize
    }
    pub fn pick<T: Clone>(&mut self, label: &'static str, items: &[T]) -> T {
        items[self.choose(label, items.len())].clone()
    }
    pub fn flag(&mut self, label: &'static str) -> bool {
        self.choose(label, 2) == 1
    }
    /// the part of the replay prefix not consumed yet
    pub fn pending_prefix(&self) -> Vec<u32> {
        self.prefix[self.pos.min(self.prefix.len())..].to_vec()
    }
    pub fn choices(&self) -> Vec<u32> {
        self.trace.iter().map(|x| x.0).collect()
    }
    pub fn is_default(&self) -> bool {
        self.trace.iter().all(|x| x.0 == 0)
    }
    /// All prefix choices must have been consumed by the case (else the replay diverged).
    pub fn assert_consumed(&self) {
        if self.pos < self.prefix.len() {
            eprintln!("MACHINERY: replay divergence, prefix longer than execution");
            std::process::exit(2);
        }
    }
}

#[derive(Default, Clone)]
pub struct Stats {
    pub executions: u64,
    pub nodes: u64,
    pub edges: u64,
    pub max_depth: usize,
    pub capped: bool,
    /// label -> (arity max, set of alternatives taken)
    pub labels: BTreeMap<&'static str, (u32, BTreeSet<u32>)>,
}

impl Stats {
    pub fn merge(&mut self, o: &Stats) {
        self.executions += o.executions;
        self.nodes += o.nodes;
        self.edges += o.edges;
        self.max_depth = self.max_depth.max(o.max_depth);
        self.capped |= o.capped;
        for (k, (a, s)) in &o.labels {
            let e = self.labels.entry(k).or_insert((0, BTreeSet::new()));
            e.0 = e.0.max(*a);
            e.1.extend(s.iter().copied());
        }
    }
    fn note(&mut self, ch: &Chooser, new_from: usize, root: bool) {
        self.executions += 1;
        let newn = (ch.trace.len() - new_from.min(ch.trace.len())) as u64;
        self.nodes += newn + if root { 1 } else { 0 };
        self.edges += newn;
        self.max_depth = self.max_depth.max(ch.trace.len());
        for (i, (c, n)) in ch.trace.iter().enumerate() {
            let e = self.labels.entry(ch.labels[i]).or_insert((0, BTreeSet::new()));
            e.0 = e.0.max(*n);
            e.1.insert(*c);
        }
    }
    /// labels with alternatives never taken (vacuity guard)
    pub fn uncovered(&self) -> Vec<String> {
        let mut v = vec![];
        for (k, (a, s)) in &self.labels {
            if (s.len() as u32) < *a {
                v.push(format!("{k}:{}/{}", s.len(), a));
            }
        }
        v
    }
    pub fn label_summary(&self) -> serde_json::Value {
        let mut m = serde_json::Map::new();
        for (k, (a, s)) in &self.labels {
            m.insert(k.to_string(), serde_json::json!(format!("{}/{}", s.len(), a)));
        }
        serde_json::Value::Object(m)
    }
}

/// Full product, depth-first in odometer order. Returns false if `cap` executions was hit.
pub fn explore_full<F: FnMut(&mut Chooser)>(mut f: F, stats: &mut Stats, cap: u64) -> bool {
    let mut prefix: Vec<u32> = vec![];
    let mut first = true;
    let mut n = 0u64;
    loop {
        let mut ch = Chooser::new(&prefix);
        super::crumb::set_choices(&prefix);
        f(&mut ch);
        ch.assert_consumed();
        let changed = if first { 0 } else { prefix.len() - 1 };
        stats.note(&ch, changed, first);
        first = false;
        n += 1;
        let trace = ch.trace;
        let mut i = trace.len();
        loop {
            if i == 0 {
                return true;
            }
            i -= 1;
            if trace[i].0 + 1 < trace[i].1 {
                prefix = trace[..i].iter().map(|x| x.0).collect();
                prefix.push(trace[i].0 + 1);
                break;
            }
        }
        if n >= cap {
            stats.capped = true;
            return false;
        }
    }
}

/// All choice vectors with at most `bound` non-default choices.
pub fn explore_deviations<F: FnMut(&mut Chooser)>(mut f: F, bound: usize, stats: &mut Stats) {
    fn rec<F: FnMut(&mut Chooser)>(f: &mut F, prefix: Vec<u32>, used: usize, bound: usize, stats: &mut Stats, root: bool) {
        let mut ch = Chooser::new(&prefix);
        super::crumb::set_choices(&prefix);
        f(&mut ch);
        ch.assert_consumed();
        let changed = if root { 0 } else { prefix.len() - 1 };
        stats.note(&ch, changed, root);
        if used >= bound {
            return;
        }
        let trace = ch.trace;
        for i in prefix.len()..trace.len() {
            for alt in 1..trace[i].1 {
                let mut p: Vec<u32> = trace[..i].iter().map(|x| x.0).collect();
                p.push(alt);
                rec(f, p, used + 1, bound, stats, false);
            }
        }
    }
    rec(&mut f, vec![], 0, bound, stats, true);
}

/// Size of the full product estimated along the default path (product of arities).
pub fn estimate_product<F: FnMut(&mut Chooser)>(mut f: F) -> f64 {
    let mut ch = Chooser::new(&[]);
    f(&mut ch);
    ch.trace.iter().map(|x| x.1 as f64).product()
}

/// Run one fixed choice vector (replay).
pub fn run_one<F: FnMut(&mut Chooser)>(mut f: F, choices: &[u32]) {
    let mut ch = Chooser::new(choices);
    f(&mut ch);
    ch.assert_consumed();
}
