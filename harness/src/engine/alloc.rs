//! Counting / limiting global allocator. Armed only around the code under test in the C06 workers:
//! a single request above the per-case limit, or live bytes above the cap, is reported (with the first
//! calamine frame of a backtrace) and the process exits with code 86 — allocation failure itself cannot
//! be caught, so it must not be allowed to happen.
use std::alloc::{GlobalAlloc, Layout, System};
use std::sync::atomic::{AtomicBool, AtomicI32, AtomicI64, AtomicUsize, Ordering};

pub struct Limiter;

static ARMED: AtomicBool = AtomicBool::new(false);
static LIVE: AtomicI64 = AtomicI64::new(0);
static SINGLE_LIMIT: AtomicUsize = AtomicUsize::new(usize::MAX);
static LIVE_LIMIT: AtomicI64 = AtomicI64::new(i64::MAX);
static REPORT_FD: AtomicI32 = AtomicI32::new(2);
static CASE: AtomicUsize = AtomicUsize::new(0);

pub fn arm(single: usize, live_extra: i64, case: usize) {
    SINGLE_LIMIT.store(single, Ordering::SeqCst);
    LIVE_LIMIT.store(LIVE.load(Ordering::SeqCst) + live_extra, Ordering::SeqCst);
    CASE.store(case, Ordering::SeqCst);
    ARMED.store(true, Ordering::SeqCst);
}
pub fn disarm() {
    ARMED.store(false, Ordering::SeqCst);
}
pub fn set_report_fd(fd: i32) {
    REPORT_FD.store(fd, Ordering::SeqCst);
}

/// raw return addresses of the current stack as module-relative hex offsets ("a,b,c")
pub fn raw_backtrace() -> String {
    let mut buf = [std::ptr::null_mut::<libc::c_void>(); 64];
    let n = unsafe { libc::backtrace(buf.as_mut_ptr(), 64) } as usize;
    let base = EXE_BASE.load(Ordering::Relaxed);
    let mut s = String::with_capacity(n * 10);
    for p in buf.iter().take(n) {
        let a = (*p as usize).wrapping_sub(base);
        if !s.is_empty() { s.push(','); }
        s.push_str(&format!("{a:x}"));
    }
    s
}

static EXE_BASE: AtomicUsize = AtomicUsize::new(0);

/// load base of the executable (first mapping of /proc/self/exe)
pub fn init_exe_base() {
    let exe = std::fs::read_link("/proc/self/exe").map(|p| p.to_string_lossy().to_string()).unwrap_or_default();
    if let Ok(maps) = std::fs::read_to_string("/proc/self/maps") {
        for l in maps.lines() {
            if l.ends_with(&exe) {
                if let Some(a) = l.split('-').next().and_then(|a| usize::from_str_radix(a, 16).ok()) { EXE_BASE.store(a, Ordering::SeqCst); return; }
            }
        }
    }
}

#[cold]
fn blowup(size: usize, why: &str) -> ! {
    ARMED.store(false, Ordering::SeqCst);
    let bt = raw_backtrace();
    let msg = format!("{}\talloc\t-\t{} {}\t{}\n", CASE.load(Ordering::SeqCst), why, size, bt);
    unsafe {
        libc::write(REPORT_FD.load(Ordering::SeqCst), msg.as_ptr() as *const libc::c_void, msg.len());
        libc::_exit(86);
    }
}

#[inline]
fn check(size: usize) {
    if ARMED.load(Ordering::Relaxed) {
        if size > SINGLE_LIMIT.load(Ordering::Relaxed) {
            blowup(size, "single request of");
        }
        if LIVE.load(Ordering::Relaxed) + size as i64 > LIVE_LIMIT.load(Ordering::Relaxed) {
            blowup(size, "live bytes over the cap at a request of");
        }
    }
}

unsafe impl GlobalAlloc for Limiter {
    unsafe fn alloc(&self, l: Layout) -> *mut u8 {
        check(l.size());
        LIVE.fetch_add(l.size() as i64, Ordering::Relaxed);
        System.alloc(l)
    }
    unsafe fn alloc_zeroed(&self, l: Layout) -> *mut u8 {
        check(l.size());
        LIVE.fetch_add(l.size() as i64, Ordering::Relaxed);
        System.alloc_zeroed(l)
    }
    unsafe fn dealloc(&self, p: *mut u8, l: Layout) {
        LIVE.fetch_sub(l.size() as i64, Ordering::Relaxed);
        System.dealloc(p, l)
    }
    unsafe fn realloc(&self, p: *mut u8, l: Layout, new: usize) -> *mut u8 {
        if new > l.size() { check(new - l.size()); if ARMED.load(Ordering::Relaxed) && new > SINGLE_LIMIT.load(Ordering::Relaxed) { blowup(new, "single request (realloc) of"); } }
        LIVE.fetch_add(new as i64 - l.size() as i64, Ordering::Relaxed);
        System.realloc(p, l, new)
    }
}
