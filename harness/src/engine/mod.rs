//! Engines shared by all property checks.
pub mod alloc;
pub mod choice;
pub mod crumb;
pub mod known;
pub mod report;

use std::hash::{Hash, Hasher};

/// FNV-1a 64 — stable across runs (std's SipHash keys are fixed too, but this is explicit).
pub fn fnv64(bytes: &[u8]) -> u64 {
    let mut h: u64 = 0xcbf29ce484222325;
    for b in bytes {
        h ^= *b as u64;
        h = h.wrapping_mul(0x100000001b3);
    }
    h
}

pub struct Fnv(pub u64);
impl Default for Fnv {
    fn default() -> Self {
        Fnv(0xcbf29ce484222325)
    }
}
impl Hasher for Fnv {
    fn finish(&self) -> u64 {
        self.0
    }
    fn write(&mut self, bytes: &[u8]) {
        for b in bytes {
            self.0 ^= *b as u64;
            self.0 = self.0.wrapping_mul(0x100000001b3);
        }
    }
}
pub fn hash_of<T: Hash>(t: &T) -> u64 {
    let mut h = Fnv::default();
    t.hash(&mut h);
    h.finish()
}

/// Run `f`, turning a panic into `Err(message @ location)`.
pub fn guarded<T>(f: impl FnOnce() -> T) -> Result<T, String> {
    let prev = QUIET_PANICS.with(|q| q.replace(true));
    let r = std::panic::catch_unwind(std::panic::AssertUnwindSafe(f));
    QUIET_PANICS.with(|q| q.set(prev));
    match r {
        Ok(v) => Ok(v),
        Err(e) => {
            let msg = if let Some(s) = e.downcast_ref::<&str>() {
                s.to_string()
            } else if let Some(s) = e.downcast_ref::<String>() {
                s.clone()
            } else {
                "<non-string panic>".to_string()
            };
            let loc = LAST_PANIC_LOC.with(|l| l.borrow_mut().take()).unwrap_or_default();
            Err(format!("{msg} @ {loc}"))
        }
    }
}

pub static WANT_BACKTRACE: std::sync::atomic::AtomicBool = std::sync::atomic::AtomicBool::new(false);

thread_local! {
    pub static LAST_PANIC_BT: std::cell::RefCell<Option<String>> = const { std::cell::RefCell::new(None) };
    pub static LAST_PANIC_LOC: std::cell::RefCell<Option<String>> = const { std::cell::RefCell::new(None) };
    pub static QUIET_PANICS: std::cell::Cell<bool> = const { std::cell::Cell::new(false) };
}

/// Install a panic hook that records the location (thread-local) and stays silent for guarded code.
pub fn install_panic_hook() {
    let default = std::panic::take_hook();
    std::panic::set_hook(Box::new(move |info| {
        let loc = info
            .location()
            .map(|l| format!("{}:{}", l.file(), l.line()))
            .unwrap_or_default();
        LAST_PANIC_LOC.with(|l| *l.borrow_mut() = Some(loc));
        if WANT_BACKTRACE.load(std::sync::atomic::Ordering::Relaxed) {
            LAST_PANIC_BT.with(|l| *l.borrow_mut() = Some(alloc::raw_backtrace()));
        }
        if !QUIET_PANICS.with(|q| q.get()) {
            default(info);
        }
    }));
}

/// Normalise a panic location "path:line" inside /repo to "relpath::trimmed source text" so that
/// keys survive line shifts.
pub fn normalise_site(loc: &str) -> String {
    static MEMO: std::sync::OnceLock<std::sync::Mutex<std::collections::HashMap<String, String>>> = std::sync::OnceLock::new();
    let memo = MEMO.get_or_init(Default::default);
    if let Some(v) = memo.lock().unwrap().get(loc) {
        return v.clone();
    }
    let v = normalise_site_uncached(loc);
    memo.lock().unwrap().insert(loc.to_string(), v.clone());
    v
}

fn normalise_site_uncached(loc: &str) -> String {
    let (file, line) = match loc.rsplit_once(':') {
        Some((f, l)) => (f, l.parse::<usize>().unwrap_or(0)),
        None => return loc.to_string(),
    };
    let rel = file.strip_prefix("/repo/").unwrap_or(file);
    let path = if file.starts_with('/') { file.to_string() } else { format!("/repo/{file}") };
    if let Ok(src) = std::fs::read_to_string(&path) {
        if let Some(text) = src.lines().nth(line.saturating_sub(1)) {
            return format!("{}|{}", rel, text.trim());
        }
    }
    // outside the repo (std, deps): keep file name without line
    let short = file.rsplit("/registry/src/").next().unwrap_or(file);
    let short = short.rsplit("/rustlib/src/rust/").next().unwrap_or(short);
    short.to_string()
}
