//! Breadcrumbs: each worker thread keeps "what case am I running, since when" in a shared mmap'd
//! file so that the supervising parent process can name the case when the child aborts (allocation
//! failure, stack overflow) or a case never returns (hang).
use std::cell::{Cell, RefCell};
use std::sync::atomic::{AtomicPtr, AtomicUsize, Ordering};

pub const SLOTS: usize = 256;
pub const SLOT: usize = 1024;

static BASE: AtomicPtr<u8> = AtomicPtr::new(std::ptr::null_mut());
static NEXT: AtomicUsize = AtomicUsize::new(0);

thread_local! {
    static MY: Cell<usize> = const { Cell::new(usize::MAX) };
    static JOB: RefCell<String> = const { RefCell::new(String::new()) };
}

pub fn now_ms() -> u64 {
    std::time::SystemTime::now().duration_since(std::time::UNIX_EPOCH).map(|d| d.as_millis() as u64).unwrap_or(0)
}

/// Child side: map the file named by VERIF_CRUMBS (if any).
pub fn init() {
    let Ok(path) = std::env::var("VERIF_CRUMBS") else { return };
    let Ok(f) = std::fs::OpenOptions::new().read(true).write(true).open(&path) else { return };
    use std::os::fd::AsRawFd;
    unsafe {
        let p = libc::mmap(std::ptr::null_mut(), SLOTS * SLOT, libc::PROT_READ | libc::PROT_WRITE, libc::MAP_SHARED, f.as_raw_fd(), 0);
        if p != libc::MAP_FAILED {
            BASE.store(p as *mut u8, Ordering::SeqCst);
        }
    }
}

fn slot() -> Option<*mut u8> {
    let b = BASE.load(Ordering::Relaxed);
    if b.is_null() {
        return None;
    }
    let i = MY.with(|m| {
        if m.get() == usize::MAX {
            m.set(NEXT.fetch_add(1, Ordering::SeqCst));
        }
        m.get()
    });
    if i >= SLOTS {
        return None;
    }
    Some(unsafe { b.add(i * SLOT) })
}

fn put(text: &str) {
    let Some(p) = slot() else { return };
    let bytes = text.as_bytes();
    let n = bytes.len().min(SLOT - 12);
    unsafe {
        std::ptr::copy_nonoverlapping(now_ms().to_le_bytes().as_ptr(), p, 8);
        std::ptr::copy_nonoverlapping((n as u32).to_le_bytes().as_ptr(), p.add(8), 4);
        std::ptr::copy_nonoverlapping(bytes.as_ptr(), p.add(12), n);
    }
}

/// Describe the job (logical model) the current thread is working on.
pub fn set_job(desc: &str) {
    if BASE.load(Ordering::Relaxed).is_null() {
        return;
    }
    JOB.with(|j| {
        let mut j = j.borrow_mut();
        j.clear();
        j.push_str(desc);
    });
    put(desc);
}

/// Called by the explorers before every execution: the replay prefix (later choices are all 0).
pub fn set_choices(prefix: &[u32]) {
    if BASE.load(Ordering::Relaxed).is_null() {
        return;
    }
    JOB.with(|j| {
        let j = j.borrow();
        let mut s = String::with_capacity(j.len() + prefix.len() * 2 + 16);
        s.push_str(&j);
        s.push_str(" | choices=");
        for (i, c) in prefix.iter().enumerate() {
            if i > 0 {
                s.push(',');
            }
            s.push_str(&c.to_string());
        }
        put(&s);
    });
}

/// free-form crumb for non-E1 engines
pub fn set_case(desc: &str) {
    if BASE.load(Ordering::Relaxed).is_null() {
        return;
    }
    put(desc);
}

pub fn clear() {
    let Some(p) = slot() else { return };
    unsafe { std::ptr::write_bytes(p, 0, 12) };
}

/// Parent side: (age in ms, text) of every active slot.
pub fn read_all(path: &str) -> Vec<(u64, String)> {
    let Ok(b) = std::fs::read(path) else { return vec![] };
    let now = now_ms();
    let mut v = vec![];
    for i in 0..SLOTS {
        let s = &b[i * SLOT..(i + 1) * SLOT];
        let t = u64::from_le_bytes(s[..8].try_into().unwrap());
        let n = u32::from_le_bytes(s[8..12].try_into().unwrap()) as usize;
        if t != 0 && n > 0 && n <= SLOT - 12 {
            v.push((now.saturating_sub(t), String::from_utf8_lossy(&s[12..12 + n]).to_string()));
        }
    }
    v
}
