//! KNOWN_FINDINGS.txt: `known: property=<id> key=<key> :: <what fails>` and
//! `fixed: property=<id> <commit> <what failed>`. Only `known:` lines with an exactly equal key
//! suppress a violation; the file is never written at run time.
use std::collections::BTreeMap;

#[derive(Default, Clone)]
pub struct Known {
    pub keys: BTreeMap<String, String>,
}

pub fn load(property: &str) -> Known {
    let path = format!("{}/KNOWN_FINDINGS.txt", crate::verif_root());
    let mut k = Known::default();
    let Ok(s) = std::fs::read_to_string(&path) else { return k };
    for line in s.lines() {
        let line = line.trim();
        let Some(rest) = line.strip_prefix("known:") else { continue };
        let rest = rest.trim();
        let Some(rest) = rest.strip_prefix(&format!("property={property} ")) else { continue };
        let Some(rest) = rest.trim().strip_prefix("key=") else { continue };
        let (key, what) = match rest.split_once(" :: ") {
            Some((a, b)) => (a.trim().to_string(), b.trim().to_string()),
            None => (rest.trim().to_string(), String::new()),
        };
        k.keys.insert(key, what);
    }
    k
}
