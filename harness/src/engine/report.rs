//! Per-check collector: violations, known-finding hits, coverage counters, evidence file.
use super::known::Known;
use serde_json::{json, Value};
use std::collections::{BTreeMap, HashSet};
use std::sync::atomic::{AtomicU64, Ordering};
use std::sync::Mutex;
use std::time::Instant;

pub struct Report {
    pub id: String,
    pub tier: String,
    pub level: String,
    pub known: Known,
    pub started: Instant,
    pub evaluations: AtomicU64,
    pub traces: AtomicU64,
    pub max_keys: AtomicU64,
    inner: Mutex<Inner>,
}

#[derive(Default)]
struct Inner {
    violations: BTreeMap<String, (u64, String, String)>, // key -> (count, what, replay path)
    known_hits: BTreeMap<String, (u64, String)>,
    inputs: HashSet<u64>,
    nontrivial: HashSet<u64>,
    outcomes: HashSet<u64>,
    samples: Vec<Value>,
    states: u64,
    transitions: u64,
    extra: BTreeMap<String, Value>,
    assumptions: Vec<String>,
    exhaustive: Option<bool>,
    rule: String,
    caps: Vec<String>,
    machinery_errors: Vec<String>,
    overflow: u64,
}

pub struct Replay {
    pub json: Value,
    /// optional materialised input files: (suffix, bytes)
    pub files: Vec<(String, Vec<u8>)>,
}

impl Report {
    pub fn new(id: &str, tier: &str, level: &str) -> Report {
        Report {
            id: id.to_string(),
            tier: tier.to_string(),
            level: level.to_string(),
            known: super::known::load(id),
            started: Instant::now(),
            evaluations: AtomicU64::new(0),
            traces: AtomicU64::new(0),
            max_keys: AtomicU64::new(40),
            inner: Mutex::new(Inner::default()),
        }
    }
    pub fn seed() -> i64 {
        std::env::var("VERIF_SEED").ok().and_then(|s| s.parse().ok()).unwrap_or(0)
    }
    pub fn eval(&self, n: u64) {
        self.evaluations.fetch_add(n, Ordering::Relaxed);
    }
    pub fn trace(&self, n: u64) {
        self.traces.fetch_add(n, Ordering::Relaxed);
    }
    /// Record one explored case: `input` hash, whether non-trivial by the check's rule, outcome hash.
    pub fn case(&self, input: u64, nontrivial: bool, outcome: u64) {
        let mut g = self.inner.lock().unwrap();
        g.inputs.insert(input);
        if nontrivial {
            g.nontrivial.insert(input);
        }
        g.outcomes.insert(outcome);
    }
    pub fn cases_bulk(&self, v: &[(u64, bool, u64)]) {
        let mut g = self.inner.lock().unwrap();
        for (input, nt, out) in v {
            g.inputs.insert(*input);
            if *nt {
                g.nontrivial.insert(*input);
            }
            g.outcomes.insert(*out);
        }
    }
    pub fn add_states(&self, states: u64, transitions: u64) {
        let mut g = self.inner.lock().unwrap();
        g.states += states;
        g.transitions += transitions;
    }
    pub fn sample(&self, v: Value) {
        let mut g = self.inner.lock().unwrap();
        if g.samples.len() < 12 {
            g.samples.push(v);
        }
    }
    pub fn want_sample(&self) -> bool {
        self.inner.lock().unwrap().samples.len() < 12
    }
    pub fn extra(&self, k: &str, v: Value) {
        self.inner.lock().unwrap().extra.insert(k.to_string(), v);
    }
    pub fn extra_add(&self, k: &str, n: u64) {
        let mut g = self.inner.lock().unwrap();
        let e = g.extra.entry(k.to_string()).or_insert(json!(0u64));
        *e = json!(e.as_u64().unwrap_or(0) + n);
    }
    pub fn assume(&self, s: &str) {
        self.inner.lock().unwrap().assumptions.push(s.to_string());
    }
    pub fn rule(&self, s: &str) {
        self.inner.lock().unwrap().rule = s.to_string();
    }
    pub fn exhaustive(&self, b: bool) {
        let mut g = self.inner.lock().unwrap();
        g.exhaustive = Some(g.exhaustive.unwrap_or(true) && b);
    }
    pub fn cap(&self, s: &str) {
        let mut g = self.inner.lock().unwrap();
        g.caps.push(s.to_string());
        g.exhaustive = Some(false);
    }
    pub fn machinery_error(&self, s: &str) {
        self.inner.lock().unwrap().machinery_errors.push(s.to_string());
    }
    pub fn is_known(&self, key: &str) -> bool {
        self.known.keys.contains_key(key)
    }
    /// Report a failed case. `key` is the classifier key; only an exactly equal `known:` key suppresses it.
    pub fn fail(&self, key: &str, what: &str, replay: impl FnOnce() -> Replay) {
        let mut g = self.inner.lock().unwrap();
        if let Some(desc) = self.known.keys.get(key) {
            let e = g.known_hits.entry(key.to_string()).or_insert((0, desc.clone()));
            e.0 += 1;
            return;
        }
        if let Some(e) = g.violations.get_mut(key) {
            e.0 += 1;
            return;
        }
        if g.violations.len() >= self.max_keys.load(Ordering::Relaxed) as usize {
            // enough distinct replayable violations: count the rest without printing more lines
            g.overflow += 1;
            return;
        }
        let path = if g.violations.len() < 100_000 {
            let r = replay();
            let dir = format!("{}/replays/{}", crate::verif_root(), self.id);
            let _ = std::fs::create_dir_all(&dir);
            let h = super::fnv64(key.as_bytes());
            let base = format!("{dir}/{h:016x}");
            let mut j = r.json;
            if let Value::Object(m) = &mut j {
                m.insert("property".into(), json!(self.id));
                m.insert("key".into(), json!(key));
                m.insert("what".into(), json!(what));
                let fl: Vec<String> = r.files.iter().map(|(s, _)| format!("{base}.{s}")).collect();
                m.insert("files".into(), json!(fl));
            }
            for (s, b) in &r.files {
                let _ = std::fs::write(format!("{base}.{s}"), b);
            }
            let p = format!("{base}.json");
            let _ = std::fs::write(&p, serde_json::to_string_pretty(&j).unwrap());
            p
        } else {
            format!("{}/replays/{}/(not-written-too-many)", crate::verif_root(), self.id)
        };
        g.violations.insert(key.to_string(), (1, what.to_string(), path));
    }
    pub fn violation_count(&self) -> usize {
        self.inner.lock().unwrap().violations.len()
    }

    /// Print verdict lines, write evidence, return the process exit code.
    pub fn finish(&self) -> i32 {
        let g = self.inner.lock().unwrap();
        for (k, (n, desc)) in &g.known_hits {
            println!("KNOWN-FINDING: property={} {} [key={} cases={}]", self.id, desc, k, n);
        }
        for (k, (n, what, path)) in &g.violations {
            println!("VIOLATION property={} replay={} key={} cases={} :: {}", self.id, path, k, n, what);
        }
        if g.overflow > 0 {
            println!("({} further failing cases under other keys not listed)", g.overflow);
        }
        let evaluations = self.evaluations.load(Ordering::Relaxed);
        let mut cov = serde_json::Map::new();
        cov.insert("evaluations".into(), json!(evaluations));
        cov.insert("distinct_inputs".into(), json!(g.inputs.len()));
        cov.insert("distinct_nontrivial".into(), json!(g.nontrivial.len()));
        cov.insert("distinct_outcomes".into(), json!(g.outcomes.len()));
        cov.insert("rule".into(), json!(g.rule));
        cov.insert("samples".into(), json!(g.samples));
        if self.level == "model_checking" {
            cov.insert("states".into(), json!(g.states));
            cov.insert("transitions".into(), json!(g.transitions));
            cov.insert("traces_validated_against_impl".into(), json!(self.traces.load(Ordering::Relaxed)));
        }
        if let Some(e) = g.exhaustive {
            cov.insert("exhaustive".into(), json!(e));
        }
        if !g.caps.is_empty() {
            cov.insert("caps_hit".into(), json!(g.caps));
        }
        cov.insert(
            "known_findings_hit".into(),
            json!(g.known_hits.iter().map(|(k, (n, _))| json!({"key": k, "cases": n})).collect::<Vec<_>>()),
        );
        for (k, v) in &g.extra {
            cov.insert(k.clone(), v.clone());
        }
        let ev = json!({
            "property_id": self.id,
            "tier": self.tier,
            "seed": Self::seed(),
            "level": self.level,
            "coverage": Value::Object(cov),
            "assumptions": g.assumptions,
            "wall_s": self.started.elapsed().as_secs_f64(),
            "violations": g.violations.len(),
        });
        let dir = format!("{}/evidence", crate::verif_root());
        let _ = std::fs::create_dir_all(&dir);
        let path = format!("{dir}/{}.json", self.id);
        if let Err(e) = std::fs::write(&path, serde_json::to_string_pretty(&ev).unwrap()) {
            eprintln!("MACHINERY: cannot write evidence {path}: {e}");
            return 2;
        }
        if !g.machinery_errors.is_empty() {
            for m in &g.machinery_errors {
                eprintln!("MACHINERY: {m}");
            }
            return 2;
        }
        println!(
            "{} {} evaluations={} distinct_nontrivial={} outcomes={} states={} transitions={} known={} violations={} wall={:.1}s",
            self.id,
            self.tier,
            evaluations,
            g.nontrivial.len(),
            g.outcomes.len(),
            g.states,
            g.transitions,
            g.known_hits.len(),
            g.violations.len(),
            self.started.elapsed().as_secs_f64()
        );
        if g.violations.is_empty() { 0 } else { 1 }
    }
}
