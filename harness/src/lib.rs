pub mod engine;

#[global_allocator]
static GLOBAL: engine::alloc::Limiter = engine::alloc::Limiter;

pub mod gen;
pub mod model;
pub mod props;

/// Root of the verification tree (where MANIFEST.json, evidence/, replays/ live).
pub fn verif_root() -> String {
    std::env::var("VERIF_ROOT").unwrap_or_else(|_| "/verif".to_string())
}

pub fn thorough(tier: &str) -> bool {
    tier == "thorough"
}
