//! Formula AST: A1 rendering (reference) and Ptg serialisation for BIFF8 (xls) and BIFF12 (xlsb).
use crate::gen::xml::col_name;

#[derive(Clone, Debug, PartialEq)]
pub struct CellRef { pub row: u32, pub col: u32, pub row_abs: bool, pub col_abs: bool }

#[derive(Clone, Debug, PartialEq)]
pub enum Expr {
    Ref(CellRef),
    Area(CellRef, CellRef),
    /// (xti index, ref)
    Ref3d(usize, CellRef),
    Area3d(usize, CellRef, CellRef),
    /// 0-based index into the defined names
    Name(usize),
    Int(u16),
    Num(f64),
    Str(String),
    Bool(bool),
    Err(u8),
    /// '+', '-', '%'
    Unary(char, Box<Expr>),
    /// ptg 0x03..=0x11
    Binary(u8, Box<Expr>, Box<Expr>),
    Paren(Box<Expr>),
    /// (ftab index, name, args, variable arity?)
    Func(u16, &'static str, Vec<Expr>, bool),
    /// SUM(x) stored as PtgAttrSum
    AttrSum(Box<Expr>),
    /// deleted references: PtgRefErr / PtgAreaErr and their 3-D forms (xti index)
    RefErr, AreaErr, RefErr3d(usize), AreaErr3d(usize),
    /// omitted function argument (PtgMissArg), only as an argument
    MissArg,
}

pub const BINOPS: [(u8, &str); 15] = [(0x03, "+"), (0x04, "-"), (0x05, "*"), (0x06, "/"), (0x07, "^"), (0x08, "&"), (0x09, "<"), (0x0A, "<="), (0x0B, "="), (0x0C, ">"), (0x0D, ">="), (0x0E, "<>"), (0x0F, " "), (0x10, ","), (0x11, ":")];

pub fn err_text(e: u8) -> &'static str {
    match e { 0x00 => "#NULL!", 0x07 => "#DIV/0!", 0x0F => "#VALUE!", 0x17 => "#REF!", 0x1D => "#NAME?", 0x24 => "#NUM!", 0x2B => "#GETTING_DATA", _ => "#N/A" }
}

fn ref_text(r: &CellRef) -> String {
    format!("{}{}{}{}", if r.col_abs { "$" } else { "" }, col_name(r.col), if r.row_abs { "$" } else { "" }, r.row + 1)
}

pub struct Ctx<'a> {
    /// sheet name designated by each XTI index
    pub xti_sheet: &'a [String],
    pub names: &'a [String],
}

/// A1 text: no spaces, `$` exactly on absolute components, `Sheet!` prefix on 3-D references.
pub fn render(e: &Expr, c: &Ctx) -> String {
    match e {
        Expr::Ref(r) => ref_text(r),
        Expr::Area(a, b) => format!("{}:{}", ref_text(a), ref_text(b)),
        Expr::Ref3d(x, r) => format!("{}!{}", c.xti_sheet[*x], ref_text(r)),
        Expr::Area3d(x, a, b) => format!("{}!{}:{}", c.xti_sheet[*x], ref_text(a), ref_text(b)),
        Expr::Name(i) => c.names[*i].clone(),
        Expr::Int(i) => i.to_string(),
        Expr::Num(f) => format!("{f}"),
        Expr::Str(s) => format!("\"{s}\""),
        Expr::Bool(b) => if *b { "TRUE".into() } else { "FALSE".into() },
        Expr::Err(x) => err_text(*x).to_string(),
        Expr::Unary('%', x) => format!("{}%", render(x, c)),
        Expr::Unary(op, x) => format!("{op}{}", render(x, c)),
        Expr::Binary(op, a, b) => format!("{}{}{}", render(a, c), BINOPS.iter().find(|o| o.0 == *op).unwrap().1, render(b, c)),
        Expr::Paren(x) => format!("({})", render(x, c)),
        Expr::Func(_, name, args, _) => format!("{name}({})", args.iter().map(|a| render(a, c)).collect::<Vec<_>>().join(",")),
        Expr::AttrSum(x) => format!("SUM({})", render(x, c)),
        Expr::RefErr | Expr::AreaErr => "#REF!".to_string(),
        Expr::RefErr3d(x) | Expr::AreaErr3d(x) => format!("{}!#REF!", c.xti_sheet[*x]),
        Expr::MissArg => String::new(),
    }
}

fn col_flags(r: &CellRef) -> u16 {
    // MS-XLS 2.5.198.27 ColRelU / MS-XLSB 2.5.97.? ColRelShort: col (14 bits), fColRel = bit 14, fRwRel = bit 15
    (r.col as u16 & 0x3FFF) | if r.col_abs { 0 } else { 0x4000 } | if r.row_abs { 0 } else { 0x8000 }
}

thread_local! { static NAME_BASE: std::cell::Cell<u32> = const { std::cell::Cell::new(0) }; static CONTROL: std::cell::Cell<bool> = const { std::cell::Cell::new(false) }; }
/// Run `f` with the control tokens a spreadsheet application writes switched on: IF and CHOOSE carry their PtgAttrIf /
/// PtgAttrChoose / PtgAttrGoto jump tokens (they render as nothing). The caller prefixes PtgAttrSemi (volatile) itself.
pub fn with_control<R>(f: impl FnOnce() -> R) -> R { CONTROL.with(|b| b.set(true)); let r = f(); CONTROL.with(|b| b.set(false)); r }
/// PtgAttrSemi: 0x19 0x01 + 2 unused bytes
pub const ATTR_SEMI: [u8; 4] = [0x19, 0x01, 0x00, 0x00];
/// Run `f` with PtgName indices shifted by `base` (the workbook has `base` name records before the model's names).
pub fn with_name_base<R>(base: u32, f: impl FnOnce() -> R) -> R { NAME_BASE.with(|b| b.set(base)); let r = f(); NAME_BASE.with(|b| b.set(0)); r }

/// rgce bytes. `wide_rows`: BIFF12 (u32 rows, 16-bit string lengths); `value_class`: use the value-class
/// (0x40) token ids for operands instead of the reference class (0x20).
pub fn to_ptg(e: &Expr, biff12: bool, value_class: bool, out: &mut Vec<u8>) {
    let cls = if value_class { 0x40 } else { 0x20 };
    let row = |r: u32, out: &mut Vec<u8>| { if biff12 { out.extend(r.to_le_bytes()) } else { out.extend((r as u16).to_le_bytes()) } };
    match e {
        Expr::Ref(r) => { out.push(0x04 | cls); row(r.row, out); out.extend(col_flags(r).to_le_bytes()); }
        Expr::Area(a, b) => { out.push(0x05 | cls); row(a.row, out); row(b.row, out); out.extend(col_flags(a).to_le_bytes()); out.extend(col_flags(b).to_le_bytes()); }
        Expr::Ref3d(x, r) => { out.push(0x1A | cls); out.extend((*x as u16).to_le_bytes()); row(r.row, out); out.extend(col_flags(r).to_le_bytes()); }
        Expr::Area3d(x, a, b) => { out.push(0x1B | cls); out.extend((*x as u16).to_le_bytes()); row(a.row, out); row(b.row, out); out.extend(col_flags(a).to_le_bytes()); out.extend(col_flags(b).to_le_bytes()); }
        Expr::Name(i) => { out.push(0x03 | cls); out.extend((*i as u32 + 1 + NAME_BASE.with(|b| b.get())).to_le_bytes()); if !biff12 { /* BIFF8 PtgName: 4-byte index only */ } }
        Expr::Int(i) => { out.push(0x1E); out.extend(i.to_le_bytes()); }
        Expr::Num(f) => { out.push(0x1F); out.extend(f.to_le_bytes()); }
        Expr::Str(s) => {
            out.push(0x17);
            let u: Vec<u16> = s.encode_utf16().collect();
            if biff12 { out.extend((u.len() as u16).to_le_bytes()); for c in u { out.extend(c.to_le_bytes()); } }
            else {
                let wide = u.iter().any(|c| *c > 0xFF);
                out.push(u.len() as u8); out.push(wide as u8);
                for c in u { if wide { out.extend(c.to_le_bytes()) } else { out.push(c as u8) } }
            }
        }
        Expr::Bool(b) => { out.push(0x1D); out.push(*b as u8); }
        Expr::Err(x) => { out.push(0x1C); out.push(*x); }
        Expr::Unary(op, x) => { to_ptg(x, biff12, value_class, out); out.push(match op { '+' => 0x12, '-' => 0x13, _ => 0x14 }); }
        Expr::Binary(op, a, b) => { to_ptg(a, biff12, value_class, out); to_ptg(b, biff12, value_class, out); out.push(*op); }
        Expr::Paren(x) => { to_ptg(x, biff12, value_class, out); out.push(0x15); }
        Expr::Func(iftab, _, args, var) if CONTROL.with(|b| b.get()) && *var && (*iftab == 1 || *iftab == 100) && args.len() >= 2 => {
            // jump offsets are not needed to render the text; plausible non-zero values are written
            to_ptg(&args[0], biff12, value_class, out);
            if *iftab == 1 { out.extend([0x19, 0x02]); out.extend(7u16.to_le_bytes()); }
            else {
                let n = args.len() - 1;
                out.extend([0x19, 0x04]); out.extend((n as u16).to_le_bytes());
                for k in 0..=n { out.extend(((2 * (n + 1) + 5 * k) as u16).to_le_bytes()); }
            }
            for a in &args[1..] { to_ptg(a, biff12, value_class, out); out.extend([0x19, 0x08]); out.extend(3u16.to_le_bytes()); }
            out.push(0x02 | cls); out.push(args.len() as u8); out.extend(iftab.to_le_bytes());
        }
        Expr::Func(iftab, _, args, var) => {
            for a in args { to_ptg(a, biff12, value_class, out); }
            if *var { out.push(0x02 | cls); out.push(args.len() as u8); out.extend(iftab.to_le_bytes()); }
            else { out.push(0x01 | cls); out.extend(iftab.to_le_bytes()); }
        }
        Expr::AttrSum(x) => { to_ptg(x, biff12, value_class, out); out.extend([0x19, 0x10, 0x00, 0x00]); }
        // MS-XLS 2.5.198.87/.28/.86/.32, MS-XLSB 2.5.97.80/.30/.79/.33: the unused location fields keep their width
        Expr::RefErr => { out.push(0x0A | cls); out.extend(vec![0u8; if biff12 { 6 } else { 4 }]); }
        Expr::AreaErr => { out.push(0x0B | cls); out.extend(vec![0u8; if biff12 { 12 } else { 8 }]); }
        Expr::RefErr3d(x) => { out.push(0x1C | cls); out.extend((*x as u16).to_le_bytes()); out.extend(vec![0u8; if biff12 { 6 } else { 4 }]); }
        Expr::AreaErr3d(x) => { out.push(0x1D | cls); out.extend((*x as u16).to_le_bytes()); out.extend(vec![0u8; if biff12 { 12 } else { 8 }]); }
        Expr::MissArg => out.push(0x16),
    }
}

pub fn depth(e: &Expr) -> usize {
    match e {
        Expr::Unary(_, x) | Expr::Paren(x) | Expr::AttrSum(x) => 1 + depth(x),
        Expr::Binary(_, a, b) => 1 + depth(a).max(depth(b)),
        Expr::Func(_, _, args, _) => 1 + args.iter().map(depth).max().unwrap_or(0),
        _ => 0,
    }
}
