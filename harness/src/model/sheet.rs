//! Reference model of a worksheet: the non-empty cells by absolute position.
use calamine::{Data, DataRef, Range};
use std::collections::BTreeMap;

pub type Grid = BTreeMap<(u32, u32), Data>;

pub fn bbox(g: &Grid) -> Option<((u32, u32), (u32, u32))> {
    if g.is_empty() {
        return None;
    }
    let r0 = g.keys().map(|k| k.0).min().unwrap();
    let r1 = g.keys().map(|k| k.0).max().unwrap();
    let c0 = g.keys().map(|k| k.1).min().unwrap();
    let c1 = g.keys().map(|k| k.1).max().unwrap();
    Some(((r0, c0), (r1, c1)))
}

fn same(a: &Data, b: &Data) -> bool {
    match (a, b) {
        (Data::Float(x), Data::Float(y)) => x.to_bits() == y.to_bits() || x == y,
        _ => a == b,
    }
}

/// The range must be exactly the bounding rectangle of the model's cells, and hold the model's value
/// at every absolute position (Empty elsewhere). Returns (kind, detail) of the first mismatch.
pub fn check_range(r: &Range<Data>, g: &Grid) -> Result<(), (String, String)> {
    let bb = bbox(g);
    match bb {
        None => {
            if !r.is_empty() {
                return Err(("bounds/nonempty-for-empty-sheet".into(), format!("range {:?}..{:?} for a sheet without values", r.start(), r.end())));
            }
            return Ok(());
        }
        Some((s, e)) => {
            if r.start() != Some(s) || r.end() != Some(e) {
                let kind = if r.is_empty() { "bounds/empty" } else if r.start().unwrap().0 != s.0 || r.end().unwrap().0 != e.0 { "bounds/rows" } else { "bounds/cols" };
                return Err((kind.into(), format!("range {:?}..{:?}, expected {:?}..{:?}", r.start(), r.end(), s, e)));
            }
            if r.height() as u32 != e.0 - s.0 + 1 || r.width() as u32 != e.1 - s.1 + 1 || r.cells().len() != r.height() * r.width() {
                return Err(("bounds/inner-size".into(), format!("size {:?} cells {}", r.get_size(), r.cells().len())));
            }
            for row in s.0..=e.0 {
                for col in s.1..=e.1 {
                    let exp = g.get(&(row, col)).cloned().unwrap_or(Data::Empty);
                    let got = r.get_value((row, col)).cloned().unwrap_or(Data::Empty);
                    if !same(&exp, &got) {
                        let kind = if matches!(exp, Data::Empty) { "value/spurious" } else if matches!(got, Data::Empty) { "value/missing" } else if std::mem::discriminant(&exp) != std::mem::discriminant(&got) { "value/type" } else { "value/content" };
                        return Err((kind.into(), format!("at ({row},{col}) got {got:?}, expected {exp:?}")));
                    }
                }
            }
            // used_cells agrees
            let used: Vec<((u32, u32), Data)> = r.used_cells().map(|(i, j, v)| ((s.0 + i as u32, s.1 + j as u32), v.clone())).collect();
            if used.len() != g.len() {
                return Err(("value/used_cells".into(), format!("used_cells has {} entries, model {}", used.len(), g.len())));
            }
        }
    }
    Ok(())
}

pub fn range_ref_to_data(r: &Range<DataRef<'_>>) -> Range<Data> {
    match (r.start(), r.end()) {
        (Some(s), Some(e)) => {
            let mut out: Range<Data> = Range::new(s, e);
            for (i, j, v) in r.used_cells() {
                out.set_value((s.0 + i as u32, s.1 + j as u32), Data::from(v.clone()));
            }
            out
        }
        _ => Range::empty(),
    }
}

/// canonical printable form of a range for differential comparison
pub fn range_digest(r: &Range<Data>) -> String {
    let mut s = format!("{:?}..{:?}|", r.start(), r.end());
    for (i, j, v) in r.used_cells() {
        s.push_str(&format!("({i},{j})={v:?};"));
    }
    s
}
