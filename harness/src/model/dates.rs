//! Integer reference for spreadsheet serial -> calendar conversion (no chrono arithmetic).

/// Howard Hinnant's civil_from_days: days since 1970-01-01 -> (y, m, d).
pub fn civil_from_days(z: i64) -> (i64, u32, u32) {
    let z = z + 719468;
    let era = if z >= 0 { z } else { z - 146096 } / 146097;
    let doe = (z - era * 146097) as u64;
    let yoe = (doe - doe / 1460 + doe / 36524 - doe / 146096) / 365;
    let y = yoe as i64 + era * 400;
    let doy = doe - (365 * yoe + yoe / 4 - yoe / 100);
    let mp = (5 * doy + 2) / 153;
    let d = (doy - (153 * mp + 2) / 5 + 1) as u32;
    let m = if mp < 10 { mp + 3 } else { mp - 9 } as u32;
    (if m <= 2 { y + 1 } else { y }, m, d)
}

/// 1899-12-30 in days since 1970-01-01.
pub const EPOCH_1899_12_30: i64 = -25569;
pub const MS_PER_DAY: i128 = 86_400_000;

/// Exact `value * 86_400_000` as (floor, remainder numerator, remainder denominator log2).
/// Returns (integer part, frac) where frac in [0,1) is returned as f64 (only used for the tie window).
pub fn exact_ms(value: f64) -> Option<(i128, f64)> {
    if !value.is_finite() {
        return None;
    }
    let bits = value.to_bits();
    let neg = (bits >> 63) != 0;
    let e = ((bits >> 52) & 0x7ff) as i32;
    let frac = bits & ((1u64 << 52) - 1);
    let (mant, exp) = if e == 0 { (frac, -1074) } else { (frac | (1u64 << 52), e - 1075) };
    let p = mant as i128 * MS_PER_DAY; // < 2^80
    let (ip, fr) = if exp >= 0 {
        if exp > 40 {
            return None; // astronomically large; callers treat as out of calendar
        }
        (p << exp, 0.0)
    } else {
        let s = -exp;
        if s >= 120 {
            (0, 0.0)
        } else {
            let ip = p >> s;
            let rem = p & ((1i128 << s) - 1);
            (ip, rem as f64 / (1i128 << s) as f64)
        }
    };
    if neg {
        // floor for negatives
        if fr == 0.0 { Some((-ip, 0.0)) } else { Some((-ip - 1, 1.0 - fr)) }
    } else {
        Some((ip, fr))
    }
}

/// Acceptable rounded millisecond counts of `value` days (round half away from zero, but within
/// `tol` of a tie both neighbours are accepted because the implementation multiplies in f64).
pub fn rounded_ms(value: f64, tol: f64) -> Option<Vec<i128>> {
    let (ip, fr) = exact_ms(value)?;
    if (fr - 0.5).abs() <= tol {
        Some(vec![ip, ip + 1])
    } else if fr < 0.5 {
        // values a hair below an integer may also be represented as frac ~ 1-eps: handled by else
        if fr <= tol && false { Some(vec![ip]) } else { Some(vec![ip]) }
    } else {
        Some(vec![ip + 1])
    }
}

/// (y,m,d,h,mi,s,ms) of `total_ms` milliseconds after 1899-12-30T00:00.
pub fn civil_of_ms(total_ms: i128) -> (i64, u32, u32, u32, u32, u32, u32) {
    let days = total_ms.div_euclid(MS_PER_DAY) as i64;
    let tod = total_ms.rem_euclid(MS_PER_DAY) as u64;
    let (y, m, d) = civil_from_days(EPOCH_1899_12_30 + days);
    let ms = (tod % 1000) as u32;
    let s = ((tod / 1000) % 60) as u32;
    let mi = ((tod / 60_000) % 60) as u32;
    let h = (tod / 3_600_000) as u32;
    (y, m, d, h, mi, s, ms)
}
