//! Reference models.
pub mod dates;
pub mod sheet;
