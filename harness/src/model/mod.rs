//! Reference models.
