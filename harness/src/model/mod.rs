//! Reference models.
pub mod dates;
