//! Reference models.
pub mod dates;
pub mod formula;
pub mod sheet;
