use cvx::*;
use std::io::Write;

/// Supervisor: run the check in a child process so that an abort (allocation failure, stack
/// overflow) or a case that never returns becomes a reported violation naming the case, instead of a
/// dead check. Exit codes: 0 held, 1 violation, 2 machinery error.
fn supervise(id: &str, tier: &str) -> i32 {
    let root = verif_root();
    let dir = format!("{root}/target/run");
    let _ = std::fs::create_dir_all(&dir);
    let crumbs = format!("{dir}/crumbs.{id}.{}", std::process::id());
    {
        let f = std::fs::File::create(&crumbs).expect("crumb file");
        f.set_len((engine::crumb::SLOTS * engine::crumb::SLOT) as u64).expect("crumb file size");
    }
    let exe = std::env::current_exe().expect("current exe");
    let mut cmd = std::process::Command::new(exe);
    cmd.args(["run", id, tier]).env("VERIF_CRUMBS", &crumbs);
    // the worker must not outlive this supervisor (a check stopped from outside would otherwise leave it running)
    unsafe { use std::os::unix::process::CommandExt; cmd.pre_exec(|| { libc::prctl(libc::PR_SET_PDEATHSIG, libc::SIGKILL); Ok(()) }); }
    let mut child = match cmd.spawn() {
        Ok(c) => c,
        Err(e) => {
            eprintln!("MACHINERY: cannot spawn worker: {e}");
            return 2;
        }
    };
    // a single case normally takes micro- to milliseconds; the limit is generous
    let case_limit_ms: u64 = std::env::var("VERIF_CASE_LIMIT_MS").ok().and_then(|s| s.parse().ok()).unwrap_or(if tier == "thorough" { 120_000 } else { 45_000 });
    let started = std::time::Instant::now();
    let report = |reason: &str, crumb_text: Vec<(u64, String)>| -> i32 {
        let rdir = format!("{root}/replays/{id}");
        let _ = std::fs::create_dir_all(&rdir);
        let path = format!("{rdir}/crash-{}.json", engine::fnv64(reason.as_bytes()) % 100000);
        let j = serde_json::json!({"property": id, "reason": reason, "cases_in_flight": crumb_text.iter().map(|(age, t)| serde_json::json!({"running_for_ms": age, "case": t})).collect::<Vec<_>>(),
            "note": "the worker process died or a case never returned; the cases in flight are listed (choices = replay prefix, later choices 0)"});
        let _ = std::fs::write(&path, serde_json::to_string_pretty(&j).unwrap());
        println!("VIOLATION property={id} replay={path} key=crash/{reason} :: worker {reason} while running {} case(s); first: {}", crumb_text.len(), crumb_text.first().map(|c| c.1.clone()).unwrap_or_default());
        let _ = std::io::stdout().flush();
        1
    };
    let code = loop {
        match child.try_wait() {
            Ok(Some(st)) => {
                use std::os::unix::process::ExitStatusExt;
                if let Some(sig) = st.signal() {
                    let c = engine::crumb::read_all(&crumbs);
                    break report(&format!("killed-by-signal-{sig}"), c);
                }
                match st.code() {
                    Some(c @ (0 | 1 | 2)) => break c,
                    Some(101) => {
                        // a panic outside the guarded subject call = a bug of this harness, not a verdict
                        eprintln!("MACHINERY: the worker panicked outside the code under test (see its message above)");
                        break 2;
                    }
                    Some(c) => {
                        let cr = engine::crumb::read_all(&crumbs);
                        break report(&format!("abnormal-exit-{c}"), cr);
                    }
                    None => break 2,
                }
            }
            Ok(None) => {
                std::thread::sleep(std::time::Duration::from_millis(200));
                if started.elapsed().as_secs() % 2 == 0 {
                    let mut c = engine::crumb::read_all(&crumbs);
                    c.sort_by(|a, b| b.0.cmp(&a.0));
                    if c.first().map(|x| x.0 > case_limit_ms).unwrap_or(false) {
                        let _ = child.kill();
                        let _ = child.wait();
                        let stuck: Vec<(u64, String)> = c.into_iter().filter(|x| x.0 > case_limit_ms / 2).collect();
                        break report("hang", stuck);
                    }
                }
            }
            Err(e) => {
                eprintln!("MACHINERY: wait failed: {e}");
                break 2;
            }
        }
    };
    let _ = std::fs::remove_file(&crumbs);
    code
}

fn main() {
    let args: Vec<String> = std::env::args().collect();
    if args.len() < 2 {
        eprintln!("usage: cvx check <ID> <quick|thorough> | replay <ID> <path>");
        std::process::exit(2);
    }
    match args[1].as_str() {
        "check" => {
            let id = &args[2];
            let tier = args.get(3).map(|s| s.as_str()).unwrap_or("quick");
            std::process::exit(supervise(id, tier));
        }
        "run" => {
            engine::install_panic_hook();
            engine::crumb::init();
            let id = &args[2];
            let tier = args.get(3).map(|s| s.as_str()).unwrap_or("quick");
            match props::run(id, tier) {
                Some(code) => std::process::exit(code),
                None => {
                    eprintln!("MACHINERY: unknown property {id}");
                    std::process::exit(2)
                }
            }
        }
        "c06-baseline" => {
            engine::install_panic_hook();
            std::process::exit(props::c06::baseline(&args[2..]));
        }
        "c06-worker" => {
            engine::install_panic_hook();
            std::process::exit(props::c06::worker(&args[2..]));
        }
        "replay" => {
            engine::install_panic_hook();
            let id = &args[2];
            let path = &args[3];
            if path.contains("/crash-") {
                println!("{}", std::fs::read_to_string(path).unwrap_or_default());
                std::process::exit(0);
            }
            match props::replay(id, path) {
                Some(code) => std::process::exit(code),
                None => {
                    eprintln!("MACHINERY: no replay for {id}");
                    std::process::exit(2)
                }
            }
        }
        _ => {
            eprintln!("unknown command");
            std::process::exit(2)
        }
    }
}
