use cvx::*;

fn main() {
    engine::install_panic_hook();
    let args: Vec<String> = std::env::args().collect();
    if args.len() < 2 {
        eprintln!("usage: cvx check <ID> <quick|thorough> | replay <ID> <path> | worker ...");
        std::process::exit(2);
    }
    match args[1].as_str() {
        "check" => {
            let id = &args[2];
            let tier = args.get(3).map(|s| s.as_str()).unwrap_or("quick");
            match props::run(id, tier) {
                Some(code) => std::process::exit(code),
                None => {
                    eprintln!("MACHINERY: unknown property {id}");
                    std::process::exit(2)
                }
            }
        }
        "replay" => {
            let id = &args[2];
            let path = &args[3];
            match props::replay(id, path) {
                Some(code) => std::process::exit(code),
                None => {
                    eprintln!("MACHINERY: no replay for {id}");
                    std::process::exit(2)
                }
            }
        }
        _ => {
            eprintln!("unknown command");
            std::process::exit(2)
        }
    }
}
