#!/bin/bash
# tools/keep_seed.sh <ID> <name> "<needs>" "<caught by>" — store a confirmed seeded change under /verif/seeded/<name>/
ID="$1"; NAME="$2"; NEEDS="$3"; CAUGHT="$4"
SR="${SEEDROOT:-/tmp/seed}"; D=/verif/seeded/$NAME; mkdir -p $D
cp $SR/$ID/patch.diff $D/patch.diff
cp $SR/$ID/seed_demo.rs $D/seed_demo.rs 2>/dev/null || cp $SR/$ID/wt/tests/seed_demo.rs $D/seed_demo.rs
cp $SR/$ID/README.md $D/AGENT_README.md 2>/dev/null
python3 - "$ID" "$NAME" "$NEEDS" "$CAUGHT" <<'PY'
import json,sys
id,name,needs,caught=sys.argv[1:5]
json.dump({"property": id, "breaks": id, "origin": "sub-agent given only the property text and a scratch worktree", "needs_to_manifest": needs,
 "confirmed": ["existing suite passes with the change (only mul_rk fails, as on the unchanged tree): tools/confirm_seed.sh", "demonstration fails with the change and passes without it: tools/confirm_seed.sh"],
 "checked_with": f"tools/try_seed.sh /verif/seeded/{name}/patch.diff {id}", "result": caught}, open(f"/verif/seeded/{name}/meta.json","w"), indent=1)
PY
