#!/usr/bin/env python3
"""Turn the VIOLATION lines of a C06 run (stdin) into `known:` lines for KNOWN_FINDINGS.txt (development-time tool;
the checks never write that file)."""
import sys, re
have = set()
for l in open('/verif/KNOWN_FINDINGS.txt'):
    m = re.match(r'known: property=C06 key=(.*?) :: ', l)
    if m: have.add(m.group(1))
for l in sys.stdin:
    m = re.match(r'VIOLATION property=C06 replay=\S+ key=(.*?) cases=(\d+) :: (.*)', l.rstrip('\n'))
    if not m: continue
    key, n, what = m.groups()
    if key in have: continue
    have.add(key)
    first = re.search(r'first: (seed [^)]*)\)', what)
    kind = 'panics' if key.startswith('panic') else ('requests memory out of proportion to the input' if key.startswith('alloc') else ('never returns' if key.startswith('hang') else 'aborts'))
    msg = what.split(' (')[0][:110]
    print(f"known: property=C06 key={key} :: {kind}: {msg}; e.g. {first.group(1) if first else ''}")
