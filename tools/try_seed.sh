#!/bin/bash
# tools/try_seed.sh <patch file> <ID> [tier] ... — apply a seeded patch to /repo, run checks, undo.
P="$1"; shift
cd /repo || exit 2
git diff --quiet || { echo "repo dirty"; exit 2; }
git apply "$P" || { echo "patch does not apply"; exit 2; }
for ID in "$@"; do /verif/check.sh "$ID" quick 2>&1 | grep -E "VIOLATION|MACHINERY|^C[0-9]+ " | grep -v KNOWN | cut -c1-260 | head -5; done
git checkout -- .
