#!/usr/bin/env python3
"""Prints the size table of DESIGN.md §2 from evidence files.
usage: design_table.py <quick evidence dir> [<thorough evidence dir>]
The thorough directory is a side copy's evidence directory (evidence files are rewritten by every run, the
committed ones are the quick tier's)."""
import json, os, sys

def load(d, i):
    p = os.path.join(d, f"C{i:02d}.json")
    if not os.path.exists(p):
        return None
    return json.load(open(p))

def num(n):
    if n is None:
        return "-"
    if n >= 1e9:
        return f"{n/1e9:.2f} G"
    if n >= 1e6:
        return f"{n/1e6:.1f} M"
    if n >= 1e4:
        return f"{n/1e3:.0f} k"
    return str(n)

def cell(e, want):
    if e is None or e.get("tier") != want:
        return "-"
    c = e["coverage"]
    return f"{num(c.get('evaluations'))} / {num(c.get('distinct_nontrivial'))} / {num(c.get('distinct_outcomes'))}, {e.get('wall_s', 0):.0f} s"

q = sys.argv[1]
t = sys.argv[2] if len(sys.argv) > 2 else None
man = {c["property_id"]: c for c in json.load(open(os.path.join(os.path.dirname(os.path.dirname(os.path.abspath(__file__))), "MANIFEST.json")))["checks"]}
print("| id | engine | quick: evaluations / distinct non-trivial inputs / distinct outcomes, wall | thorough |")
print("|---|---|---|---|")
for i in range(1, 21):
    pid = f"C{i:02d}"
    print(f"| {pid} | {man[pid]['engine']} | {cell(load(q, i), 'quick')} | {cell(load(t, i), 'thorough') if t else '-'} |")
