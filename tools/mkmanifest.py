#!/usr/bin/env python3
"""Regenerates /verif/MANIFEST.json from the table below and validates it against the schema."""
import json, subprocess, sys, os
HERE = os.path.dirname(os.path.dirname(os.path.abspath(__file__)))
ALL = ["C%02d" % i for i in range(1, 21)]
# id -> (category, engine, technique, level text, level note, design ref)
CHECKS = {
 "C06": ("fault_enumeration", "E3-faults",
   "exhaustive single-fault (thorough: + pair) enumeration over generated seed files, every entry point, in sandboxed worker processes with panic hook, limiting allocator and watchdog",
   "Every byte offset of every part (inflated zip members re-zipped with valid CRCs, raw zip bytes, the BIFF8 Workbook stream re-wrapped in a valid compound file, raw compound-file bytes incl. header/FAT/directory, the decompressed VBA dir stream re-compressed, a compressed module stream) of 5 (thorough 10) seed workbooks x 14 byte/field operators (+ numeric and cell-reference replacement in XML, deletion of each member; thorough: all pairs of 5 field-sized overwrites in the first 160 bytes of binary parts) = 224 k (2.08 M) faulted files, each run through new(), ranges under two header options, formulas, worksheets(), metadata, VBA, merge cells / tables (one beside the used cells) / range_ref and auto-detection. Panics (overflow checks on), single allocations above max(64 MiB, 4096 x input), 4 GiB live, and 10 s stalls are violations keyed by panic location / allocating source line (in XML parts qualified by the element and attribute the fault sits in); the sites reachable on the pinned tree are listed one by one in KNOWN_FINDINGS.txt, any other site fails the check. The seed workbooks themselves (an ods sheet whose used block starts in column H with a blank row inside, a VBA module stored as a raw chunk, ...) are run unfaulted as well and must read without any panic or blow-up; that baseline is not subject to the known list.",
   "Trusted: the fault operators and seeds; 'time proportional to input' is approximated by the stall watchdog, 'memory proportional' by the allocator thresholds; arbitrary multi-fault combinations are not covered.",
   "DESIGN.md §2 C06"),
 "C07": ("model_checking", "E2-bfs",
   "exhaustive enumeration of all call sequences up to depth 3 (thorough 5) over the Reader/ReaderRef API on real readers, differential oracle against first-call results",
   "For one feature-rich workbook per format (3 sheets incl. chart/hidden sheet, shared strings, 1-D and 2-D shared formulas, dates, merged regions, a table, a five-module VBA project, a defined name, a gap row) every sequence of <=3 (thorough 5) calls over 13 Reader calls, 3 header-row settings and the format's own calls (range_ref, merge cells by name / index incl. unknown ones, merged regions, tables) is replayed on a fresh reader (38 k / 14 M sequences): every result must equal the result of the same call made first on a fresh reader under the header-row option then in force. In addition range == range_ref == range_at(n) == worksheets()[name] for every sheet (also for every sheet of every fixture workbook under the repository's tests/ directory that opens), unknown names and near misses of every real name (letter case, blanks, one character more or less) are errors, two sheets whose names differ only by case are distinct on every path, and the auto-detected Sheets reader returns the same results as the format's own reader for every common call under every option and after every change of option.",
   "Trusted: the workbook builders; results compared through Debug renderings.",
   "DESIGN.md §2 C07"),
 "C20": ("model_checking", "E1-choice",
   "stateless choice-tree exploration of encrypted containers (OOXML-in-CFB, BIFF8 FILEPASS, ods manifests) and of unencrypted workbooks on the real readers",
   "Encrypted OOXML packages (6 sizes around the mini-stream cutoff, 6 EncryptionInfo variants (standard, agile, oversized, absent, extensible 3.3 / 4.3), DataSpaces storage or not) in CFB layouts (v3/v4, 5 sector orders, directory variations, stale bytes after name terminators) opened with Xlsx and Xlsb (reader positioned at the start, behind the magic bytes or at the end); BIFF workbooks with FILEPASS of 5 kinds (BIFF8 RC4, XOR, CryptoAPI v2/v4; the 4-byte BIFF5 XOR form in a Book stream) at both legal positions with garbled record bodies; ods manifests with encryption-data on the first, a middle, the last, all or several of 3-5 entries, with or without a leading manifest:keyinfo element, with or without comments between and inside the entries: a 15.7 MB package (two DIFAT sectors, directory behind sector 30208) in three sector orders, chains owning spare sectors: every one must fail with the reader's Password error. Conversely unencrypted xlsx (every C01 encoding), xlsb, xls (CFB layouts, extra streams, an embedded OLE object that is itself an encrypted OOXML document, WRITEPROTECT, PROTECT + PASSWORD verifier) and ods workbooks whose names and strings spell the trigger words must open. Full product for ods (thorough: all families), <=4 deviations otherwise.",
   "Trusted: the container writers; ciphertext is pseudo-random.",
   "DESIGN.md §2 C20"),
 "C18": ("model_checking", "E1-choice",
   "complete enumeration of sources over {a,b} up to length 8/12 x every valid tokenisation, copy tokens at every chunk position, multi-chunk containers through the real decompressor; choice-tree exploration of project layouts in three container formats",
   "(a) every source over {a,b} of length <= 8 (thorough 12) in every valid tokenisation (literal or any legal copy token at each position; 27 k / 50 k containers), copy tokens with boundary offsets and lengths at every decompressed position 1..4095 (all 12 offset-width regimes), sources of 0..20000 bytes of four redundancy profiles compressed greedy / literal-only / raw, and two-chunk containers whose first chunk has every token count modulo 8, all decompressed by the real code and compared with the source or an independent reference expansion; (b) projects with 0-3 modules (source length, text offset 0 / 5 / 1000 / 65536 / 70000, compression mode, stream name different from module name, class/read-only/private records, bytes that happen to be valid UTF-8, module names equal to project streams up to case), empty or filled DOCSTRING / HELPFILE / CONSTANTS records, 0-3 references of 5 kinds, optional compat-version record, code page 1252 (thorough 932), CFB layout, embedded in xlsm, xlsb and xls: module names, raw bytes, decoded text and reference names.",
   "Trusted: gen/ovba.rs (compressor, dir stream from MS-OVBA 2.3.4.2, 2.4.1) and gen/cfb.rs; optional unicode records always present.",
   "DESIGN.md §2 C18"),
 "C15": ("model_checking", "E1-choice",
   "complete enumeration of master formulas (templates x reference alphabet) x offsets through the real translator vs a reference shift; choice-tree exploration of group shapes end to end",
   "(a) 40 formula templates (function names ending in digits, apostrophes inside string literals and double quotes inside quoted sheet names, names that only look like references (XFE1, A1048577, A0, B01), defined names with non-ASCII letters ending like a cell reference, sheet-qualified / quoted / non-ASCII sheet names, strings with cell-like text and doubled quotes, exponent numbers, names with digits) with 24 references (all absolute/relative combinations at A1, Z10, AA5, ZZ100, C16384, B20000) in every slot, plus masters touching the last column / last row (XFD2, A1048576, XFD1048576) moved only where they stay inside the sheet, are translated by every offset of a window through the real replace_cell_names and compared with the piecewise reference shift; (b) groups of 7 shapes (1-D and 2-D) at 3 master positions with every master formula, the master not being the top-left cell of the declared range, a second group (below, or with its master on the last row of the first), members repeating the master text, swapped or sparse si values, attributes of c / f elements in reverse order, a non-member cell inside the range, prefix, implicit references, rows that never carry r, master text split by CDATA and comments and indented XML are read through worksheet_formula (<=2, thorough 4 deviations): every member must carry its translated formula, other cells theirs.",
   "Trusted: the piece-list reference in props/c15.rs and gen/xlsx.rs. Offsets keep references inside the sheet.",
   "DESIGN.md §2 C15"),
 "C14": ("model_checking", "E1-choice",
   "complete enumeration of formula ASTs up to depth 2 (thorough: + depth 3 layer) serialised to BIFF8/BIFF12 token streams and rendered by the real parsers, vs the AST's own A1 renderer; sub-lattice end to end at cell positions",
   "About 160 k (thorough 4 M) ASTs per binary format over cell refs (4 absolute/relative combinations x columns A..IV/XFD x first/last row), areas, 3-D refs and areas through a non-identity XTI table, defined names, int/float/8- and 16-bit string/bool/error literals, unary, 15 binary, parentheses, fixed- and variable-arity functions (incl. omitted arguments, CHOOSE, calls with 30 / 127 / 128 / 130 / 255 arguments), deleted references (PtgRefErr/AreaErr, 2-D and 3-D), 8 error literals incl. 0x2B, and PtgAttrSum are serialised in both operand classes and once more with the control tokens applications write (PtgAttrSemi, PtgAttrIf/Goto, PtgAttrChoose) and rendered by the real xls and xlsb token parsers; every 41st (thorough 7th) is also written into FORMULA / BrtFmla* records in windows at A1 and at the last cell and read through worksheet_formula (placement and emptiness of other cells checked), cycling a formula-less name record before the used names and (xls) sheet substreams stored in reverse of BoundSheet8 order, (xlsb) a chart sheet as second tab so that tab indices and worksheet indices differ; xlsx and ods stored-text formulas with XML-special characters at every subset of 6 positions (two of them directly after another, so that implicit and explicit references mix within a row), explicit and implicit cell references, rows that never carry r, formula text split by CDATA and comments, ods formula cells without cached value, three attribute orders of the ods cell element (formula first / last / in the middle), rows inside grouping elements, indented documents.",
   "Trusted: model/formula.rs (AST renderer and Ptg serialiser written from MS-XLS 2.5.198 / MS-XLSB 2.5.97; relative flags: bit 14 column, bit 15 row). Strings without double quotes, sheet names that need no quoting.",
   "DESIGN.md §2 C14"),
 "C17": ("model_checking", "E1-choice",
   "stateless choice-tree exploration of merged-region sets and table geometries through every API path of the real xlsx / xls readers",
   "Workbooks with 1-2 sheets, 0-3 merged regions per sheet drawn in every order from five regions (A1 to the last rows/columns of the format; xls also split over two MERGECELLS records), and for xlsx 0-2 tables at 5 placements relative to the used range x header 0/1 x totals 0/1 x totalsRowShown absent/1/0 x .rels attribute order x indentation x explicit default counts x table parts under xl/tables or another folder x table parts with autoFilter / calculated column / tableStyleInfo / x14:table alt text x either sheet x a second sheet that holds merged regions but no values x prefix, all choice vectors with <=5 (thorough 6) deviations; worksheet_merge_cells(_at), load_merged_regions + merged_regions(_by_sheet), load_tables, table_names(_in_sheet), table_by_name(_ref) are compared with the declared geometry and the model values. On the repository's own xlsx / xls fixtures the access paths are compared with each other (by name = by index = loaded list, owned table = borrowed table).",
   "Trusted: gen/xlsx.rs, gen/biff8.rs; tables keep at least one data row.",
   "DESIGN.md §2 C17"),
 "C08": ("model_checking", "E2-bfs",
   "exhaustive enumeration of option histories (depth <= 3 over 12 options, depth 4 over 4/12) x all row patterns x four formats on real readers vs the statement",
   "For every subset of rows 0..4 being non-empty (32 patterns) plus a sheet occupying the last two rows of the grid, two column offsets and all four formats (xlsx and xlsb also with an out-of-date advisory dimension record, xlsx also with rows and cells without r attributes and with formatted value-less cells below the data, ods also with rows inside table:table-header-rows / table:table-rows, xls also with blank-string formula results alone on the first and last used row), every history of <=3 header-row settings over FirstNonEmptyRow and Row(n), n in {0..6, 65535, 65536, 1048576, u32::MAX}, and every history of 4 over a 4-option subset (thorough: all 12), is run on one reader with a read after every step; each read must not panic, start at row n iff data exists at or below n (else be empty), agree cell-by-cell with the default read at every position >= n and contain nothing else. The same statement is checked on every sheet of every fixture workbook under the repository's tests/ directory, with the sheet's own default read as the model.",
   "Trusted: the four writers and the statement-level oracle in props/c08.rs; columns of the returned range are not constrained.",
   "DESIGN.md §2 C08"),
 "C16": ("model_checking", "E1-choice",
   "stateless choice-tree exploration of workbook metadata (sheet lists, names, visibility, kinds, defined names, date system) in four formats on the real readers",
   "Workbooks with 0-3 sheets over 9 names (XML specials, quotes, non-ASCII, a C1 control character, astral, 31 characters), every visibility and every sheet kind the format can express, 0-2 reference-valued defined names (pointing at B2 or at the last cell of the sheet), xlsb relationship ids with non-ASCII letters, both date systems with a date cell on every worksheet, xlsx prefix / xls name packing / ods table:name attribute last / ods style-name collisions across families / ods table:dde-links with an unnamed table / xlsx defined-name text split by a comment / xlsx workbook part with calcPr and an extLst holding x15:workbookPr / .rels attribute order / indented documents / xls substreams in reverse of BoundSheet8 order / a formula-less name record first (xls, xlsb) / the undefined bits of the xls hsState byte set: all choice vectors with <=3 (thorough 5) deviations plus the full product over one-sheet workbooks; sheet_names, sheets_metadata, defined_names and the date cells (xls: NUMBER or RK integer /100) are compared exactly and in order, and must be the same through content auto-detection.",
   "Trusted: the four writers; defined names are reference-valued only.",
   "DESIGN.md §2 C16"),
 "C10": ("model_checking", "E1-choice",
   "complete enumeration of all number-format token sequences up to length 3/5 through the real classifier vs a token-level reference + full product of style tables x number encodings x date systems in three formats",
   "(a) all 199 k (thorough 668 M) sequences over a 58-token alphabet (incl. escaped escape characters and quoted / escaped semicolons) of the number-format grammar are classified by the real detect_custom_number_format and compared with a token-level reference (first section only; literals, escapes and bracket prefixes do not count); every built-in id 0-22, 37-49 through both lookup functions. (b) the full product (about 16 k files) of 14 style kinds, 5 serials, both date systems, XF position, out-of-range style index, General xf entries without numFmtId, applyNumberFormat 1/absent/0 and the optional elements Excel appends to workbook.xml (calcPr, extLst with x15:workbookPr) (xlsx), the fPhShow bit (xlsb), FORMAT strings stored 8- or 16-bit (xls) and every number encoding of xlsx / xls / xlsb is read end to end: variant, flavour, serial and is_1904 must match.",
   "Trusted: the token classes of props/c10.rs; token sequences mixing General/@ with date tokens, digit placeholders or separators, and elapsed tokens after a date token, are outside the grammar and skipped; locale-dependent built-in ids not asserted.",
   "DESIGN.md §2 C10"),
 "C19": ("model_checking", "E1-choice",
   "stateless choice-tree exploration of atom strings x every storage form of all four formats on the real readers",
   "All 3616 strings of <=3 atoms over 15 atoms (XML specials, spaces, tab, LF, ]]>, Latin-1, C1 control U+0091, BMP, astral) plus the empty and a 32767-character string (and xls / xlsb tables of up to 66000 strings referenced past the 16-bit index boundary) are written in every storage form: xlsx shared/inline/formula string x entity/decimal/hex references/CDATA/mixed (CDATA + comment + text) x plain/1-3 rich runs/phonetic runs x empty <si/> before or between x prefix; xlsb Isst (plain/rich/phonetic)/St/FmlaString; xls SST (plain/rich/ExtRst, optionally after an empty rich item)/LABEL/STRING in both packings; ods content (text:s variants, literal spaces, spans, paragraphs, with or without a cell comment), attribute with or without text:p. Exact string equality, and the neighbouring string must be unaffected.",
   "Trusted: the four writers; an empty-string cell may read as Empty; ods tab only in the attribute form.",
   "DESIGN.md §2 C19"),
 "C02": ("model_checking", "E1-choice",
   "complete enumeration of all 2^32 RK words through the real decoder + stateless choice-tree exploration of BIFF8 sheets x equivalent record encodings",
   "All 4 294 967 296 RK words are decoded by the real rk decoder and compared with the MS-XLS 2.5.217 definition (value, sign extension, /100, Int/Float typing); shared-string tables of 255..66000 strings with LABELSST indices at the 8- and 16-bit boundaries; formula results whose IEEE bytes carry 0xFF in one of the two top bytes; FORMULA records whose tokens the text renderer rejects; a Book stream next to Workbook; the two sheet substreams stored in either order; end to end, sheets with <=2 (thorough 3) cells of ~75 kinds at three anchors (incl. row 65535 / column 255) are written with every exact encoding of each number (NUMBER, RK int/float, x100 forms, MULRK grouping), LABELSST/LABEL/BOOLERR/FORMULA(+STRING, also with a SHRFMLA / ARRAY / TABLE record in between) and ignorable records, in v3 and v4 containers, and read back through worksheet_range.",
   "Trusted: gen/biff8.rs + gen/cfb.rs writers (MS-XLS / MS-CFB) and the value model.",
   "DESIGN.md §2 C02"),
 "C03": ("model_checking", "E1-choice",
   "stateless choice-tree exploration of BIFF12 sheets x record kinds x ignorable-record interleavings on the real reader",
   "Sheets with <=2 cells of ~70 kinds (every exact RK encoding, Real, Isst, St, Bool, Error, all four BrtFmla* kinds, zero-length constant and cached strings, /100 RK floats sensitive to the rounding of the division), bulk inside the skipped blocks before the sheet data (records crossing the reader's buffer refills), the fPhShow bit of the Cell structure set or not, the reference count of the string table equal to / below / above its item count, relationship ids with non-ASCII letters, shared strings that carry rich runs / phonetic data, at three anchors incl. the last row/column, with an ignorable record of 7 kinds and 6 payload lengths (1-, 2- and 3-byte length prefixes, 1- and 2-byte ids) at every gap, blank cells and optional pre-sheet-data blocks; shared-string tables of 65535..66000 strings with indices above 16 bits; all choice vectors with <=2 (thorough 3) deviations; worksheet_range and worksheet_range_ref compared with the model and with each other.",
   "Trusted: gen/xlsb.rs (MS-XLSB) and the value model.",
   "DESIGN.md §2 C03"),
 "C12": ("model_checking", "E1-choice",
   "stateless choice-tree exploration: every legal set of CONTINUE cut points x per-segment 8/16-bit packing of small shared-string tables on the real reader",
   "single-, two- and three-string tables (all texts of <=3 characters + 4-character texts without the astral character; thorough: all of <=4 + 5-character texts without it) over {ASCII, Latin-1, C1 control U+0091, BMP-only, astral} characters with rich-run / ExtRst variants (incl. a zero-length ExtRst block) are serialised under every subset of legal cut points and every packing of compressible segments (full product on small tables, <=2/3 deviations otherwise), plus 9000- and 32767-character strings cut at the 8224-byte limit, an SST record holding only its header, tables of 255..66000 strings; LABEL, FORMULA+STRING (3 or 300 characters; directly or behind a SHRFMLA / ARRAY / TABLE record) and sheet names in both packings; every cell referencing every string is compared.",
   "Trusted: the SST serialiser in gen/biff8.rs; cuts inside headers / surrogate pairs are not generated.",
   "DESIGN.md §2 C12"),
 "C13": ("model_checking", "E1-choice",
   "stateless choice-tree exploration of stream sets x physical compound-file layouts through the real Cfb reader",
   "138 stream sets with sizes around the 64-byte mini sector, the 4096 mini-stream cutoff and sector multiples are written in every combination (thorough: full 73728-layout product; quick: <=2 deviations + full product on 6 sets) of v3/v4, 8 sector orders, 4 mini-sector orders, unused directory entries, directory order, free sectors, extra FAT sectors, free mini sectors, stale bytes after the name terminator, junk in the upper half of v3 size fields, a mini FAT sector without mini stream, chains owning spare sectors past the stream's size; a 7.3 MB stream (partly filled DIFAT sector) and a 15.9 MB stream (two DIFAT sectors) in both tiers; thorough adds a 15 MB stream with a full DIFAT sector. Streams must come back byte-exact. End to end, an xls workbook (small / above the cutoff) with a three-module VBA project (one module stream above the cutoff) in every such layout must read the same cells as in the default layout, also when a BIFF5 Book stream precedes Workbook in the directory. The Workbook / Book stream of every xls fixture of the repository is re-wrapped into 24 fresh containers as well and must read as the fixture does.",
   "Trusted: gen/cfb.rs (MS-CFB). The directory red-black colouring is not varied.",
   "DESIGN.md §2 C13"),
 "C01": ("model_checking", "E1-choice",
   "stateless choice-tree exploration of logical xlsx sheets x legal physical encodings on the real reader vs a map model",
   "Every sheet with <=2 (thorough 3) cells of 32 kinds (all eight error constants), optionally in a 1904 workbook, (incl. numbers under General / date / 0.00 styles, formulas caching the empty string or text with XML references, inline and formula strings with leading / trailing white space) in a 3x4 window at four anchors (A1 .. XFD1048576 corner) is written under every choice vector with <=2 (thorough 3) deviations over cell kinds and 26 variation points (cell attributes in the order t s r, XML comments, optional neighbours of sheetData, true/false booleans, sst count below the item count, relationship ids in shuffled order, a stale dimension, General xf entries without numFmtId, indented XML, XL/ folder case, applyNumberFormat 1/absent/0, Target before Type in .rels, rows that never carry r, formula and value text split by CDATA and comments, inline strings followed by phonetic runs, ...), plus the full encoding product on representative sheets; each file is read through worksheet_range and worksheet_range_ref and compared cell-by-cell and bound-by-bound with the model.",
   "Trusted: the independent writer gen/xlsx.rs (ECMA-376) and the map model; inputs outside the alphabet (relationship prefixes other than r:, _xHHHH_ escapes) are not generated.",
   "DESIGN.md §2 C01"),
 "C04": ("model_checking", "E1-choice",
   "stateless choice-tree exploration: every run-length composition of every small ods grid on the real reader vs a map model",
   "Every grid up to 3x3 / 4x2 / 2x4 with 1-3 and 4x3 / 3x4 with 1-2 non-empty cells (thorough: up to 3x3 with 1-4, 4x3 / 3x4 / 2x5 with 1-3, 5x4 with 1-2) over two distinct values of 9 kinds is written in every composition of its runs of equal cells and rows (<=2 deviations, thorough 3 on the smaller grids and over the run-length choices of the middle ones; full product of the run-length choices where small) with covered cells, horizontally merged cells (number-columns-spanned), strings by attribute only, leading runs of 1040 empty cells / 70000 empty rows, cell comments, rows inside header-rows / row-group / rows elements, an indented document and trailing-empty variants up to column 16384 / row 1048576, and read back through worksheet_range.",
   "Trusted: gen/ods.rs (ODF 1.2) and the map model. Empty-string cells and inter-element whitespace are not generated.",
   "DESIGN.md §2 C04"),
 "C05": ("model_checking", "E2-bfs",
   "explicit-state BFS to closure over real Range<T> objects (set_value / range / constructors) against a map model",
   "Every Range state reachable inside 3x3 / 4x4 coordinate boxes (several origins incl. the sheet's far corner, 2-3 cell values, three cell types) from every constructor (incl. from_sparse on dense input with each row's columns in every order) is enumerated to closure by calling the real methods; every state is compared with a map model through all read accessors, the iterators also from the back and from both ends. Exhaustive inside the box; nothing is claimed for larger rectangles except by the argument that the code has no size-dependent branches beyond 'inside / grow rows / grow cols / grow both / disjoint / overlap', all of which occur in the box.",
   "Trusted: the 60-line map model in props/c05.rs; coordinates near u32::MAX are not explored.",
   "DESIGN.md §2 C05"),
 "C09": ("model_checking", "E1-choice",
   "stateless choice-tree exploration (full product / deviation-bounded) of ranges x header configs x target shapes on the real RangeDeserializer vs a reference row mapper",
   "Every small range (origin, 0-3 rows, 1-3 columns, 18 cell values incl. two error kinds, numeric text that fits only some numeric types, the strings true / False, the zero-length string, an integer beyond 2^53 and a fraction below one), every header mode (none / all, each also reached through another builder setting / every ordered custom selection incl. the empty one, names padded with blanks, tabs, newlines or no-break spaces and unknown names / struct field names) and 15 target record shapes (incl. enum and u8 fields) are enumerated; every item, the items also when the iterator is advanced by nth(0), nth(1) or collect(), every size_hint before each next() and every CellError kind and absolute position is compared with a reference mapper. Full product on small jobs, all choice vectors with <=2 (thorough 3) deviations from the default on the rest. Every sheet of every fixture workbook of the repository is deserialized row by row as well (Vec<Data>, no headers) against the same reference conversions.",
   "Trusted: the reference conversions in props/c09.rs; serde's derive. Custom error messages are not compared.",
   "DESIGN.md §2 C09"),
 "C11": ("model_checking", "sweep",
   "complete enumeration of every whole-day serial x both date systems x 16 fractions on the real conversion code vs an integer calendar with exact i128 millisecond rounding",
   "All 2 958 466 whole days of the supported span, in both date systems, at 16 fractions chosen at millisecond, half-millisecond and day boundaries (94.7 M conversions) are converted by the real code and compared with Hinnant's integer civil_from_days and exact rounding; monotonicity is checked over the whole sorted grid; as_date/as_time/as_duration and the Data::Int/Float paths on a fixed sub-lattice; NaN, infinities, huge and negative values (floats and 64-bit integers) must not panic and never yield a date; Int cells convert like the Float of the same number.",
   "Trusted: model/dates.rs (60 lines of integer arithmetic). Fractions between the 16 grid points are not enumerated; within a tie window of max(2^-9 ms, 3 ulp) either millisecond is accepted.",
   "DESIGN.md §2 C11"),
}
NOT_BUILT = "check not built yet in this round (planned, see DESIGN.md §2); not a claim that the technique cannot apply"
def main():
    hooks_commits = subprocess.run(["git","-C","/repo","log","--format=%h %s","--grep=^verif-hooks"],capture_output=True,text=True).stdout.strip().splitlines()
    m = {
      "version": 1,
      "setup_cmd": "./setup.sh",
      "hooks": {
        "guard": "cargo feature verif-hooks (calamine::verif module, #[cfg(feature = \"verif-hooks\")])",
        "enable": "the harness crate /verif/harness path-depends on /repo with features [\"dates\", \"verif-hooks\"]; check.sh runs cargo build --release --offline before every check",
        "baseline_off_cmd": "cd /repo && cargo test --workspace --no-fail-fast --offline",
        "source_commits": [l.split()[0] for l in hooks_commits],
        "add_only": True,
      },
      "engines": [
        {"name":"E1-choice","path":"harness/src/engine/choice.rs","serves_properties":[],"kind_free_text":"stateless choice-tree explorer on the real code: full product or all vectors with <= d deviations from the default encoding"},
        {"name":"E2-bfs","path":"harness/src/props/c05.rs","serves_properties":["C05","C07","C08"],"kind_free_text":"explicit-state BFS / exhaustive call-sequence enumeration over real objects with a reference or differential model"},
        {"name":"E3-faults","path":"harness/src/props/c06.rs","serves_properties":["C06"],"kind_free_text":"exhaustive fault enumerator over seed files with sandboxed worker processes (panic hook, limiting allocator, stall watchdog, symbolised failure sites)"},
        {"name":"sweep","path":"harness/src/props/c11.rs","serves_properties":["C02","C10","C11","C14","C15","C18"],"kind_free_text":"complete enumeration of a finite input domain through a real function (hook or public API) against a reference"},
      ],
      "checks": [],
      "notes": "All checks: ./check.sh <ID> <quick|thorough>; exit 0 held / 1 VIOLATION / 2 machinery error. Known findings: KNOWN_FINDINGS.txt.",
      "not_applicable": [],
    }
    for e in m["engines"]:
        if e["name"]=="E1-choice": e["serves_properties"]=[k for k,v in CHECKS.items() if v[1]=="E1-choice"]
    for pid in ALL:
        if pid in CHECKS:
            cat, eng, tech, text, note, ref = CHECKS[pid]
            m["checks"].append({
              "property_id": pid,
              "quick_cmd": f"./check.sh {pid} quick",
              "thorough_cmd": f"./check.sh {pid} thorough",
              "evidence_file": f"evidence/{pid}.json",
              "replay_cmd_template": f"./check.sh replay {pid} {{path}}",
              "engine": eng,
              "level_claimed": {"category": cat, "text": text, "design_ref": ref},
              "level_note": note,
              "technique": tech,
            })
        else:
            m["not_applicable"].append({"property_id": pid, "reason": NOT_BUILT})
    out = os.path.join(HERE, "MANIFEST.json")
    json.dump(m, open(out, "w"), indent=1)
    try:
        import jsonschema
        jsonschema.validate(m, json.load(open("/root/.vp/MANIFEST.schema.json")))
        print("MANIFEST.json valid;", len(m["checks"]), "checks")
    except ImportError:
        print("jsonschema not importable; run with python3-vt")
if __name__ == "__main__":
    main()
