#!/bin/bash
# tools/confirm_seed.sh <ID> [features] — in the sub-agent's scratch worktree /tmp/seed/<ID>/wt confirm: (1) the existing suite
# passes with the change (only mul_rk fails), (2) the demonstration fails with the change, (3) passes without it.
ID="$1"; FEAT="${2:-}"; SR="${SEEDROOT:-/tmp/seed}"; W=$SR/$ID/wt
cd "$W" || exit 2
export CARGO_NET_OFFLINE=true
git diff -- src > $SR/$ID/patch.check.diff
if ! diff -q $SR/$ID/patch.check.diff $SR/$ID/patch.diff >/dev/null; then echo "NOTE: worktree diff differs from patch.diff"; fi
echo "== suite with change"; cargo test --workspace --no-fail-fast --offline 2>&1 | grep -E "^test result|^test .* FAILED" | grep -v seed_demo | head -8
echo "== demo with change (must fail)"; cargo test --offline $FEAT --test seed_demo 2>&1 | grep -E "^test result|^test .*(FAILED|ok)$" | head -6
git apply -R $SR/$ID/patch.check.diff   # (not git stash: worktrees of one repository share the stash stack)
echo "== demo without change (must pass)"; cargo test --offline $FEAT --test seed_demo 2>&1 | grep -E "^test result|^test .*(FAILED|ok)$" | head -6
git apply $SR/$ID/patch.check.diff
