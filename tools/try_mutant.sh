#!/bin/bash
# tools/try_mutant.sh '<sed expr>' <file under /repo> <ID> [tier]  — apply an in-place edit to /repo, run a check, revert.
set -u
EXPR="$1"; FILE="$2"; ID="$3"; TIER="${4:-quick}"
cd /repo || exit 2
if ! git diff --quiet; then echo "repo dirty"; exit 2; fi
sed -i -E "$EXPR" "$FILE"
if git diff --quiet; then echo "MUTANT DID NOT APPLY"; exit 2; fi
git diff | grep '^[+-]' | grep -v '^+++\|^---' | head -6
/verif/check.sh "$ID" "$TIER" 2>&1 | grep -E "VIOLATION|MACHINERY|^C[0-9]+ " | cut -c1-300 | head -8
git checkout -- .
