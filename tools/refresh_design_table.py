#!/usr/bin/env python3
"""Rewrites the size table of DESIGN.md §2 from evidence: refresh_design_table.py <quick dir> <thorough dir>"""
import subprocess, sys, os, re
here = os.path.dirname(os.path.dirname(os.path.abspath(__file__)))
tbl = subprocess.run([sys.executable, os.path.join(here, "tools/design_table.py")] + sys.argv[1:], capture_output=True, text=True).stdout.strip()
p = os.path.join(here, "DESIGN.md"); s = open(p).read()
a = s.index("## 2. Per property"); b = s.index("Details that matter for reading a result:")
intro = """## 2. Per property

What each check enumerates, its oracle and what it trusts are stated per check in MANIFEST.json (`technique`,
`level_claimed`, `level_note`) and, in full, in the `rule` / `assumptions` fields of each evidence file; §7.1 lists the
variation points round by round. The table gives the measured sizes: quick from the committed evidence, thorough from the
last complete side run of every thorough command on this 16-core sandbox (evidence files are rewritten by every run, so the
thorough numbers are reproduced by running the thorough command).

"""
s = s[:a] + intro + tbl + "\n\n" + s[b:]
open(p, "w").write(s)
print(tbl)
