#!/bin/bash
# tools/regress_seeds.sh [name-glob] — apply every kept seeded change (seeded/<name>/patch.rebased.diff if present, else patch.diff)
# to /repo in turn, run the quick check of the property it breaks, undo it, and print one line per seed: CAUGHT / MISSED / NOAPPLY.
# Development-time tool (patches /repo's working tree temporarily; /repo must be clean and no other check may be running).
cd /repo || exit 2
git diff --quiet || { echo "repo dirty"; exit 2; }
SAVE=$(mktemp -d); cp -r /verif/evidence "$SAVE/"   # the runs below rewrite evidence files: put the current ones back afterwards
for d in /verif/seeded/${1:-*}/; do
  n=$(basename "$d"); id=${n:0:3}
  p="$d/patch.rebased.diff"; [ -f "$p" ] || p="$d/patch.diff"
  if ! git apply --check "$p" 2>/dev/null; then echo "$n NOAPPLY"; continue; fi
  git apply "$p"
  out=$(/verif/check.sh "$id" quick 2>&1 | grep -E "^VIOLATION|MACHINERY" | head -1 | sed 's/replay=[^ ]* //' | cut -c1-150)
  git checkout -- .
  if [ -n "$out" ]; then echo "$n CAUGHT $out"; else echo "$n MISSED"; fi
done
cp "$SAVE"/evidence/*.json /verif/evidence/; rm -rf "$SAVE"
