#!/usr/bin/env python3
import json, sys, glob, jsonschema
s = json.load(open("/root/.vp/EVIDENCE.schema.json"))
bad = 0
for f in sorted(glob.glob("/verif/evidence/*.json")):
    try:
        jsonschema.validate(json.load(open(f)), s); print("ok", f)
    except Exception as e:
        bad += 1; print("INVALID", f, str(e)[:300])
sys.exit(1 if bad else 0)
