#!/bin/bash
# MANIFEST.setup_cmd: build the harness offline from files on disk.
set -e
HERE="$(cd "$(dirname "$0")" && pwd)"
export CARGO_TARGET_DIR="$HERE/target"
export CARGO_NET_OFFLINE=true
cd "$HERE/harness"
cargo build --release --offline
