use calamine::*;
use std::io::Cursor;
fn dump<R: Reader<Cursor<Vec<u8>>>>(name: &str, bytes: Vec<u8>) where R::Error: std::fmt::Debug {
    match R::new(Cursor::new(bytes)) {
        Err(e) => println!("{name}: open error {e:?}"),
        Ok(mut wb) => {
            println!("{name}: sheets {:?} names {:?}", wb.sheets_metadata(), wb.defined_names());
            for s in wb.sheet_names() {
                match wb.worksheet_range(&s) {
                    Ok(r) => { println!("{name}[{s}] start={:?} end={:?} rows={}", r.start(), r.end(), r.rows().count());
                        for (i,j,v) in r.used_cells() { println!("   ({},{}) {:?}", i as u32 + r.start().unwrap().0, j as u32 + r.start().unwrap().1, v); } }
                    Err(e) => println!("{name}[{s}] error {e:?}"),
                }
                match wb.worksheet_formula(&s) {
                    Ok(r) => { for (i,j,v) in r.used_cells() { println!("   F({},{}) {:?}", i as u32 + r.start().unwrap().0, j as u32 + r.start().unwrap().1, v); } }
                    Err(e) => println!("{name}[{s}] formula error {e:?}"),
                }
                let n = std::env::var("HDR").ok().and_then(|v| v.parse::<u32>().ok());
                if let Some(n) = n {
                    wb.with_header_row(HeaderRow::Row(n));
                    let r = std::panic::catch_unwind(std::panic::AssertUnwindSafe(|| wb.worksheet_range(&s).map(|r| (r.start(), r.end()))));
                    println!("   header_row({n}) -> {:?}", r.map_err(|_| "PANIC"));
                    wb.with_header_row(HeaderRow::FirstNonEmptyRow);
                }
            }
        }
    }
}
fn main() {
    let only = std::env::args().nth(1);
    let mut files: Vec<_> = std::fs::read_dir("/root/scratch/files").unwrap().map(|e| e.unwrap().path()).collect();
    files.sort();
    for p in files {
        let name = p.file_name().unwrap().to_str().unwrap().to_string();
        if let Some(o) = &only { if !name.contains(o.as_str()) { continue; } }
        let bytes = std::fs::read(&p).unwrap();
        let r = std::panic::catch_unwind(|| {
            if name.ends_with(".xlsx") { dump::<Xlsx<_>>(&name, bytes) }
            else if name.ends_with(".ods") { dump::<Ods<_>>(&name, bytes) }
            else if name.ends_with(".xlsb") { dump::<Xlsb<_>>(&name, bytes) }
            else { dump::<Xls<_>>(&name, bytes) }
        });
        if r.is_err() { println!("{name}: PANIC"); }
    }
}
