# Throw-away probe: hand-written xlsx / ods parts used at design time (see DESIGN.md §8).
import zipfile, os, sys
out = sys.argv[1] if len(sys.argv) > 1 else '/root/scratch/files'
os.makedirs(out, exist_ok=True)
def z(name, parts, method=zipfile.ZIP_STORED):
    with zipfile.ZipFile(os.path.join(out,name),'w',method) as f:
        for k,v in parts: f.writestr(k,v)
CT='<?xml version="1.0"?><Types xmlns="http://schemas.openxmlformats.org/package/2006/content-types"/>'
def xlsx(name, sheet, sst=None, styles=None, wb=None, rels=None, extra=()):
    wb = wb or '<workbook xmlns="http://schemas.openxmlformats.org/spreadsheetml/2006/main" xmlns:r="http://schemas.openxmlformats.org/officeDocument/2006/relationships"><sheets><sheet name="S" sheetId="1" r:id="rId1"/></sheets></workbook>'
    rels = rels or '<Relationships xmlns="http://schemas.openxmlformats.org/package/2006/relationships"><Relationship Id="rId1" Type="http://schemas.openxmlformats.org/officeDocument/2006/relationships/worksheet" Target="worksheets/sheet1.xml"/></Relationships>'
    parts=[('[Content_Types].xml',CT),('xl/workbook.xml',wb),('xl/_rels/workbook.xml.rels',rels),('xl/worksheets/sheet1.xml',sheet)]
    if sst: parts.append(('xl/sharedStrings.xml',sst))
    if styles: parts.append(('xl/styles.xml',styles))
    parts += list(extra)
    z(name, parts)
NS='xmlns="http://schemas.openxmlformats.org/spreadsheetml/2006/main"'
xlsx('si_empty.xlsx', f'<worksheet {NS}><sheetData><row r="1"><c r="A1" t="s"><v>1</v></c><c r="B1" t="s"><v>2</v></c></row></sheetData></worksheet>',
     sst=f'<sst {NS}><si/><si><t>one</t></si><si><t>two</t></si></sst>')
xlsx('ns_rich.xlsx', '<x:worksheet xmlns:x="http://schemas.openxmlformats.org/spreadsheetml/2006/main"><x:sheetData><x:row r="1"><x:c r="A1" t="s"><x:v>0</x:v></x:c><x:c r="B1" t="s"><x:v>1</x:v></x:c></x:row></x:sheetData></x:worksheet>',
     sst='<x:sst xmlns:x="http://schemas.openxmlformats.org/spreadsheetml/2006/main"><x:si><x:r><x:t>ab</x:t></x:r><x:r><x:t>cd</x:t></x:r></x:si><x:si><x:t>plain</x:t></x:si></x:sst>')
xlsx('cdata.xlsx', f'<worksheet {NS}><sheetData><row r="1"><c r="A1" t="inlineStr"><is><t><![CDATA[a<b]]></t></is></c><c r="B1" t="str"><v><![CDATA[x&y]]></v></c></row></sheetData></worksheet>')
xlsx('implicit.xlsx', f'<worksheet {NS}><sheetData><row><c><v>1</v></c><c><v>2</v></c></row><row r="5"><c r="C5"><v>3</v></c><c><v>4</v></c></row><row><c><v>5</v></c></row></sheetData></worksheet>')
xlsx('fmt_quot.xlsx', f'<worksheet {NS}><sheetData><row r="1"><c r="A1" s="1"><v>2</v></c><c r="B1" s="2"><v>2</v></c></row></sheetData></worksheet>',
     styles=f'<styleSheet {NS}><numFmts count="2"><numFmt numFmtId="164" formatCode="&quot;Date: &quot;yyyy"/><numFmt numFmtId="165" formatCode="0&quot;d&quot;"/></numFmts><cellXfs count="3"><xf numFmtId="0"/><xf numFmtId="164"/><xf numFmtId="165"/></cellXfs></styleSheet>',
     wb='<x:workbook xmlns:x="http://schemas.openxmlformats.org/spreadsheetml/2006/main" xmlns:r="http://schemas.openxmlformats.org/officeDocument/2006/relationships"><x:workbookPr date1904="1"/><x:sheets><x:sheet name="S" sheetId="1" r:id="rId1"/></x:sheets></x:workbook>')
xlsx('shared2d.xlsx', f'<worksheet {NS}><sheetData><row r="1"><c r="A1"><f t="shared" ref="A1:B2" si="0">C1+$D1+E$1+LOG10(F1)</f><v>1</v></c><c r="B1"><f t="shared" si="0"/><v>1</v></c></row><row r="2"><c r="A2"><f t="shared" si="0"/><v>1</v></c><c r="B2"><f t="shared" si="0"/><v>1</v></c></row></sheetData></worksheet>')
MAN='<?xml version="1.0"?><manifest:manifest xmlns:manifest="urn:oasis:names:tc:opendocument:xmlns:manifest:1.0"><manifest:file-entry manifest:full-path="/" manifest:media-type="application/vnd.oasis.opendocument.spreadsheet"/></manifest:manifest>'
HEAD='<?xml version="1.0"?><office:document-content xmlns:office="urn:oasis:names:tc:opendocument:xmlns:office:1.0" xmlns:table="urn:oasis:names:tc:opendocument:xmlns:table:1.0" xmlns:text="urn:oasis:names:tc:opendocument:xmlns:text:1.0"><office:body><office:spreadsheet>'
def ods(name, table, close=True):
    content=HEAD+table+('</office:spreadsheet></office:body></office:document-content>' if close else '')
    z(name,[('mimetype','application/vnd.oasis.opendocument.spreadsheet'),('META-INF/manifest.xml',MAN),('content.xml',content)])
def c(v): return f'<table:table-cell office:value-type="float" office:value="{v}"/>'
E='<table:table-cell/>'
ods('blankrow_colB.ods', '<table:table table:name="S"><table:table-row>'+E+c(1)+c(2)+'</table:table-row><table:table-row>'+E+'</table:table-row><table:table-row>'+E+c(3)+c(4)+'</table:table-row></table:table>')
ods('blankrow_colA.ods', '<table:table table:name="S"><table:table-row>'+c(1)+c(2)+'</table:table-row><table:table-row>'+E+'</table:table-row><table:table-row>'+c(3)+c(4)+'</table:table-row></table:table>')
# truncated content.xml inside an intact zip: Ods::new never returns (read_table ignores Eof)
ods('trunc.ods', '<table:table table:name="S"><table:table-row>'+c(1)+'</table:table-row>', close=False)
