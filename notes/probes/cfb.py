import struct
FREE=0xFFFFFFFF; EOC=0xFFFFFFFE; FATSECT=0xFFFFFFFD
def cfb(streams, version=3, force_regular=True):
    """streams: list of (name, bytes). All streams padded/placed in regular sectors if len>=4096 else ministream."""
    ss = 512 if version==3 else 4096
    # layout: sector0 = FAT, sector1.. = directory, then data
    sectors=[]  # list of bytes of size ss
    fat=[]
    def alloc_chain(data):
        n=(len(data)+ss-1)//ss
        start=len(sectors) if n else EOC
        for i in range(n):
            chunk=data[i*ss:(i+1)*ss].ljust(ss,b'\0')
            sectors.append(chunk); fat.append(len(sectors) if i<n-1 else EOC)
        return start
    # reserve FAT sector 0 and dir sector 1
    sectors.append(None); fat.append(FATSECT)
    sectors.append(None); fat.append(EOC)
    mini=b''; minifat=[]
    entries=[]
    for name,data in streams:
        if len(data)<4096:
            start=len(minifat) if data else EOC
            n=(len(data)+63)//64
            for i in range(n):
                mini+=data[i*64:(i+1)*64].ljust(64,b'\0'); minifat.append(len(minifat)+1 if i<n-1 else EOC)
            entries.append((name,2,start,len(data)))
        else:
            entries.append((name,2,alloc_chain(data),len(data)))
    ministart=alloc_chain(mini) if mini else EOC
    mf=b''.join(struct.pack('<I',x) for x in minifat)
    mfstart=alloc_chain(mf.ljust(((len(mf)+ss-1)//ss)*ss, b'\xff')) if mf else EOC
    mfcount=(len(mf)+ss-1)//ss
    def dirent(name,typ,start,size,child=FREE,left=FREE,right=FREE):
        n=name.encode('utf-16le')+b'\0\0'
        e=n.ljust(64,b'\0')+struct.pack('<H',len(n))+bytes([typ,1])+struct.pack('<III',left,right,child)+b'\0'*16+b'\0'*4+b'\0'*16+struct.pack('<I',start)+struct.pack('<Q',size)
        assert len(e)==128; return e
    d=dirent('Root Entry',5,ministart,len(mini),child=1 if entries else FREE)
    for i,(name,typ,start,size) in enumerate(entries):
        d+=dirent(name,typ,start,size,right=(i+2) if i+1<len(entries) else FREE)
    per=ss//128
    while (len(d)//128)%per: d+=dirent('',0,0,0)
    assert len(d)<=ss
    sectors[1]=d.ljust(ss,b'\0')
    f=b''.join(struct.pack('<I',x) for x in fat)
    assert len(f)<=ss
    sectors[0]=f.ljust(ss,b'\xff')
    hdr=bytes.fromhex('d0cf11e0a1b11ae1')+b'\0'*16+struct.pack('<HHHHH',0x3E,version,0xFFFE,9 if version==3 else 12,6)+b'\0'*6
    hdr+=struct.pack('<I',0 if version==3 else 1)  # num dir sectors
    hdr+=struct.pack('<I',1)  # num fat sectors
    hdr+=struct.pack('<I',1)  # first dir sector
    hdr+=struct.pack('<I',0)  # transaction
    hdr+=struct.pack('<I',4096) # mini cutoff
    hdr+=struct.pack('<I',mfstart)+struct.pack('<I',mfcount)
    hdr+=struct.pack('<I',EOC)+struct.pack('<I',0)  # difat start, count
    hdr+=struct.pack('<I',0)+struct.pack('<I',FREE)*108
    assert len(hdr)==512
    return hdr.ljust(ss,b'\0')+b''.join(sectors)
