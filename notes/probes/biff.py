import struct
def rec(t,d=b''): return struct.pack('<HH',t,len(d))+d
def sstr(s):  # ShortXLUnicodeString, uncompressed
    return bytes([len(s),1])+s.encode('utf-16le')
def xstr(s):
    return struct.pack('<HB',len(s),1)+s.encode('utf-16le')
def workbook(sheets, formats=(), xfs=(0,), date1904=False, sst=(), filepass=None, extern=None, names=()):
    """sheets: list of (name, [records bytes]) ; returns stream bytes"""
    def globals_(offsets):
        g=rec(0x0809,struct.pack('<HHHHII',0x0600,0x0005,0x0DBB,0x07CC,0,0x0006))
        if filepass is not None: g+=rec(0x002F,filepass)
        g+=rec(0x0042,struct.pack('<H',1200))
        if date1904: g+=rec(0x0022,struct.pack('<H',1))
        for idx,f in formats: g+=rec(0x041E,struct.pack('<H',idx)+xstr(f))
        for ifmt in xfs: g+=rec(0x00E0,struct.pack('<HH',0,ifmt)+b'\0'*16)
        for (name,_),off in zip(sheets,offsets): g+=rec(0x0085,struct.pack('<IBB',off,0,0)+sstr(name))
        if extern is not None:
            g+=rec(0x01AE,struct.pack('<HH',len(sheets),0x0401))
            g+=rec(0x0017,struct.pack('<H',len(extern))+b''.join(struct.pack('<Hhh',0,a,b) for a,b in extern))
        for n,rg in names:
            g+=rec(0x0018,struct.pack('<HBBHHHBBBB',0,0,len(n),len(rg),0,0,0,0,0,0)+b'\0'+n.encode('latin1')+rg)
        if sst:
            body=struct.pack('<II',len(sst),len(sst))+b''.join(xstr(s) for s in sst)
            g+=rec(0x00FC,body)
        g+=rec(0x000A)
        return g
    g=globals_([0]*len(sheets))
    offs=[];pos=len(g);subs=[]
    for name,recs in sheets:
        s=rec(0x0809,struct.pack('<HHHHII',0x0600,0x0010,0x0DBB,0x07CC,0,0x0006))+rec(0x0200,struct.pack('<IIHHH',0,10,0,10,0))+b''.join(recs)+rec(0x000A)
        offs.append(pos);pos+=len(s);subs.append(s)
    g=globals_(offs)
    out=g+b''.join(subs)
    return out.ljust(max(4096,len(out)),b'\0')
def number(r,c,v,xf=0): return rec(0x0203,struct.pack('<HHHd',r,c,xf,v))
def rk(r,c,word,xf=0): return rec(0x027E,struct.pack('<HHHI',r,c,xf,word))
def mulrk(r,c0,words,xf=0): return rec(0x00BD,struct.pack('<HH',r,c0)+b''.join(struct.pack('<HI',xf,w) for w in words)+struct.pack('<H',c0+len(words)-1))
def labelsst(r,c,i): return rec(0x00FD,struct.pack('<HHHI',r,c,0,i))
def formula(r,c,val,rgce,xf=0): return rec(0x0006,struct.pack('<HHH',r,c,xf)+struct.pack('<d',val)+struct.pack('<HI',0,0)+struct.pack('<H',len(rgce))+rgce)
