import struct,sys
sys.path.insert(0,'.')
from cfb import cfb
from biff import *
import os; out=os.environ.get('OUT','/root/scratch/files/')
def ref(r,c,colrel=True,rowrel=True): return bytes([0x44])+struct.pack('<HH',r,c|(0x4000 if colrel else 0)|(0x8000 if rowrel else 0))
def area(r1,r2,c1,c2,rel=True):
    f=0xC000 if rel else 0
    return bytes([0x25])+struct.pack('<HHHH',r1,r2,c1|f,c2|f)
def ref3d(ixti,r,c,colrel=True,rowrel=True): return bytes([0x5A])+struct.pack('<HHH',ixti,r,c|(0x4000 if colrel else 0)|(0x8000 if rowrel else 0))
def area3d(ixti,r1,r2,c1,c2,rel=True):
    f=0xC000 if rel else 0
    return bytes([0x3B])+struct.pack('<HHHHH',ixti,r1,r2,c1|f,c2|f)
cells=[number(0,0,1.5), rk(1,0,(7<<2)|2), rk(2,0,((-7&0x3FFFFFFF)<<2)|2), rk(3,0,(12345<<2)|3), mulrk(4,0,[(1<<2)|2,(2<<2)|2,(300<<2)|3]),
  formula(5,0,1.0,ref(0,1)),               # B1
  formula(6,0,1.0,ref(0,26)),              # AA1
  formula(7,0,1.0,ref(0,1,False,False)),   # $B$1
  formula(8,0,1.0,area(0,2,0,1)),          # A1:B3 relative
  formula(9,0,1.0,area(0,2,0,1,False)),    # $A$1:$B$3
  formula(10,0,1.0,ref3d(0,0,1)),          # S2!B1
  formula(11,0,1.0,ref3d(0,0,1,False,False)), # S2!$B$1
  formula(12,0,1.0,area3d(0,0,2,0,1)),     # S2!A1:B3
  formula(13,0,1.0,ref(0,255)),            # IV1
]
wb=workbook([('S1',cells),('S2',[number(0,0,2.0)])], extern=[(1,1)])
open(out+'basic_v3.xls','wb').write(cfb([('Workbook',wb)],3))
open(out+'basic_v4.xls','wb').write(cfb([('Workbook',wb)],4))
wbs=workbook([('S1',[number(0,0,1.5)])])
open(out+'small_v3.xls','wb').write(cfb([('Workbook',wbs[:600])],3))   # mini stream
# FILEPASS XOR (type 0) and RC4 (type 1)
open(out+'filepass0.xls','wb').write(cfb([('Workbook',workbook([('S1',[number(0,0,1.5)])],filepass=struct.pack('<HHH',0,0x1234,0x5678)))],3))
open(out+'filepass1.xls','wb').write(cfb([('Workbook',workbook([('S1',[number(0,0,1.5)])],filepass=struct.pack('<HHH',1,1,1)+b'\0'*48))],3))
# encrypted package containers
open(out+'enc_v3.xlsx','wb').write(cfb([('EncryptionInfo',b'x'*100),('EncryptedPackage',b'y'*5000)],3))
open(out+'enc_v4_nomini.xlsx','wb').write(cfb([('EncryptionInfo',b'x'*5000),('EncryptedPackage',b'y'*5000)],4))
open(out+'enc_v4_mini.xlsx','wb').write(cfb([('EncryptionInfo',b'x'*100),('EncryptedPackage',b'y'*5000)],4))
