import struct, zipfile
def vid(t):
    return bytes([t]) if t<0x80 else bytes([(t&0x7f)|0x80, t>>7])
def vlen(n):
    o=b''
    while True:
        b=n&0x7f; n>>=7
        if n: o+=bytes([b|0x80])
        else: o+=bytes([b]); return o
def rec(t,d=b''): return vid(t)+vlen(len(d))+d
def ws(s): return struct.pack('<I',len(s))+s.encode('utf-16le')
def cellhdr(col,style=0): return struct.pack('<I',col)+struct.pack('<I',style)  # col, iStyleRef(24)+flags
wbk = rec(0x0083)+rec(0x0099,struct.pack('<I',0)+struct.pack('<I',0)+ws(''))+rec(0x008F)+rec(0x009C,struct.pack('<II',0,1)+ws('rId1')+ws('S'))+rec(0x0090)+rec(0x0084)
rels='<Relationships xmlns="http://schemas.openxmlformats.org/package/2006/relationships"><Relationship Id="rId1" Type="http://schemas.openxmlformats.org/officeDocument/2006/relationships/worksheet" Target="worksheets/sheet1.bin"/></Relationships>'
# styles: fmts none; cellXfs: xf0 general, xf1 numFmt 14 (date)
def xf(ifmt): return struct.pack('<HH',0,ifmt)+b'\0'*12
sty = rec(0x0116)+rec(0x0269,struct.pack('<I',2))+rec(0x002F,xf(0))+rec(0x002F,xf(14))+rec(0x026A)+rec(0x0117)
def fml(rgce): return struct.pack('<H',0)+struct.pack('<I',len(rgce))+rgce+struct.pack('<I',0)
one=bytes([0x1E,1,0])
sheet = rec(0x0081)+rec(0x0094,struct.pack('<IIII',0,10,0,10))+rec(0x0091)
sheet+= rec(0x0000,struct.pack('<I',0)+b'\0'*13)
sheet+= rec(0x0002,cellhdr(0,1)+struct.pack('<I',(44197<<2)|2))      # RK int, date style
sheet+= rec(0x0002,cellhdr(1,1)+struct.pack('<I',0x40e594a0))        # RK float 44197, date style
sheet+= rec(0x0005,cellhdr(2,1)+struct.pack('<d',44197.0))          # Real, date style
sheet+= rec(0x0002,cellhdr(3,0)+struct.pack('<I',(300<<2)|3))        # RK int x100 -> 3
sheet+= rec(0x0000,struct.pack('<I',1)+b'\0'*13)
sheet+= rec(0x0003,cellhdr(0)+bytes([0x07]))                        # CellError DIV0
sheet+= rec(0x000B,cellhdr(1)+bytes([0x07])+fml(one))               # FmlaError
sheet+= rec(0x000A,cellhdr(2)+bytes([1])+fml(one))                  # FmlaBool
sheet+= rec(0x0009,cellhdr(3)+struct.pack('<d',2.5)+fml(one))       # FmlaNum
sheet+= rec(0x0008,cellhdr(4)+ws('str')+fml(one))                   # FmlaString
sheet+= rec(0x0092)+rec(0x0082)
with zipfile.ZipFile(__import__('os').environ.get('OUT','/root/scratch/files/')+'p.xlsb','w') as z:
    z.writestr('xl/workbook.bin',wbk); z.writestr('xl/_rels/workbook.bin.rels',rels); z.writestr('xl/styles.bin',sty); z.writestr('xl/worksheets/sheet1.bin',sheet)
