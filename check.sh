#!/bin/bash
# check.sh <ID> <quick|thorough>   |   check.sh replay <ID> <path>
# Rebuilds the harness (and calamine from /repo's working tree, hooks on) and runs one check.
# exit 0 = held (maybe KNOWN-FINDING lines), 1 = VIOLATION line(s), 2 = machinery error.
set -u
HERE="$(cd "$(dirname "$0")" && pwd)"
export VERIF_ROOT="$HERE"
export CARGO_TARGET_DIR="$HERE/target"
export CARGO_NET_OFFLINE=true
export RUST_BACKTRACE=0
cd "$HERE/harness" || exit 2
LOG="$HERE/target/build.log"
mkdir -p "$HERE/target"
(
  flock 9
  if ! cargo build --release --offline >"$LOG" 2>&1; then
    echo "MACHINERY: harness build failed (see $LOG)" >&2
    tail -40 "$LOG" >&2
    exit 2
  fi
) 9>"$HERE/target/.build.lock" || exit 2
cd "$HERE"
if [ "${1:-}" = "replay" ]; then
  exec "$HERE/target/release/cvx" replay "$2" "$3"
fi
exec "$HERE/target/release/cvx" check "$1" "${2:-quick}"
